"""C15 NULL-dereference check flags exactly the unchecked flows -- taint transfer table.

The iff over all paths of all programs is not decided. Decided: the per-edge / per-definition
action table of cwe_476::Context and of the generic taint transfer it builds on, which is
the property statement read row by row (R1..R8 as in DESIGN.md section 3/C15).
"""
from .lib import slots as SL
from .lib import sym as S
from .lib import thir as T
from .lib.sym import fmt


def is_call(t, name=None):
    return isinstance(t, tuple) and t and t[0] == "call" and (name is None or t[1] == name or (isinstance(name, (set, tuple, frozenset)) and t[1] in name))


def stmts_of(t):
    return list(t[1]) + [t[2]] if t[0] == "seq" else [t]


def is_none_adt(t):
    t = S.value(t)
    return t[0] == "adt" and t[1].endswith("option::Option") and t[2] == "None"


def run(run):
    F = run.facts()
    run.explanation = (
        "Static action-table analysis of the NULL-dereference taint analysis: for every transfer function of checkers::cwe_476::Context "
        "and the generic TaintAnalysis defaults it relies on, the match tables and guards are extracted from the THIR and compared with "
        "the rows of the property statement: which Def variants with an address slot (derived from the type definition) are sinks and "
        "on which state (the one before the definition) the address is evaluated; both positions of (jump, untaken conditional) stop "
        "taint on a tainted condition without warning; extern calls warn on declared parameters else clobber; generic calls check "
        "integer and float parameter registers; returns check return registers; overwriting a register replaces its taint; every "
        "`None` after a positive taint test is preceded by a warning except in update_jump; one computation per configured source call, "
        "deduplicated by source address. Decides the transfer table, not the path-sensitive iff.")
    run.rule("R1", "Load/Store with tainted ADDRESS (evaluated on the state before the definition) warn and stop")
    run.rule("R2", "tainted condition of the taken or the untaken conditional stops propagation without warning")
    run.rule("R3", "extern call: warn iff a declared parameter is tainted, else remove non-callee-saved taint")
    run.rule("R4", "indirect/internal call: calling-convention parameter registers (integer and float) are checked")
    run.rule("R5", "return inside the program: return registers checked, empty state returned")
    run.rule("R6", "register overwrite replaces the taint of the defined variable")
    run.rule("R7", "every stop after a positive taint test is paired with a warning, except in update_jump")
    run.rule("R8", "one computation per configured source call seeded at the return node; dedup by source address in an ordered map")

    CTX = "checkers::cwe_476::context"
    defadt = F.adt("intermediate_representation::def::Def")
    addr_variants = [v["name"] for v in defadt["variants"] if any(f["name"] == "address" for f in v["fields"])]
    run.floor("Def variants with an address", len(addr_variants), 2)

    def r1():
        fn = F.fn("update_def_post", mod=CTX)
        ms = T.find_matches(fn["body"], adt_suffix="def::Def")
        if not ms:
            raise T.AnchorMissing("no match over Def in cwe_476 update_def_post")
        m = ms[0]
        sy = S.Sym(F)
        env = {}
        sy.term(fn["body"], env)
        for v in addr_variants:
            key = "update_def_post|%s" % v
            hit = None
            for arm in m["arms"]:
                if v not in T.pat_variant_names(arm["p"]) or "g" not in arm:
                    continue
                # the guard: <state>.eval(address).is_tainted()
                g = sy.ev(arm["g"], env)
                aid = set()
                for vp in SL.variant_subpatterns(arm["p"], "def::Def", v):
                    sp = T.pat_field(vp, "address")
                    if sp is not None:
                        aid |= {i for (i, n, _) in T.pat_bindings(sp)}
                if is_call(g, "is_tainted") and is_call(g[2][0], "eval"):
                    ev = g[2][0]
                    on = ev[2][0]
                    what = ev[2][1]
                    # `what` must be the address slot
                    addr_ok = (what[0] == "field" and what[2] in ("%s.address" % v,)) or (what[0] == "var" and what[2] in aid) or (what[0] == "field" and what[2].endswith(".address"))
                    hit = (arm, on, addr_ok, what)
                    break
            if hit is None:
                run.violated("R1", key, "a Def::%s whose address depends on the unchecked return value is not treated as a dereference (no arm guarded by eval(address).is_tainted())" % v, F.loc(m))
                continue
            arm, on, addr_ok, what = hit
            site = F.loc(arm["b"])
            run.check("R1", key + "|address-slot", addr_ok, "the sink test of Def::%s must evaluate the ADDRESS expression; it evaluates %s" % (v, fmt(what)), site)
            defines_register = any(f["name"] == "var" for vv in defadt["variants"] if vv["name"] == v for f in vv["fields"])
            state_ok = on[0] == "var" and (on[1] == "old_state" or (on[1] == "new_state" and not defines_register))
            run.check("R1", key + "|state-before-def", state_ok, "the address must be evaluated on the state BEFORE the definition (old_state): for `R = Load(R)` the new state has already overwritten the tainted register; evaluated on `%s`" % fmt(on), site)
            warns = any(T.is_call(x, "generate_cwe_warning") for x in T.walk(arm["b"]))
            bt = sy.ev(arm["b"], env)
            run.check("R1", key + "|warns-and-stops", warns and is_none_adt(bt), "a tainted dereference must generate a warning and stop the propagation (None)", site)
        # everything else keeps the new state
        last = m["arms"][-1]
        lt = S.value(sy.ev(last["b"], env))
        run.check("R1", "update_def_post|otherwise-new-state", lt[0] == "adt" and lt[2] == "Some" and dict(lt[3])["0"][0] == "var" and dict(lt[3])["0"][1] == "new_state", "definitions that are no sink continue with the NEW state; found %s" % fmt(lt), F.loc(last["b"]))

    run.guarded("R1", r1)

    def r2():
        fn = F.fn("update_jump", mod=CTX)
        ms = [n for n in T.walk(fn["body"]) if n.get("k") == "Match" and not n.get("ms", "").startswith("ForLoop")]
        sy = S.Sym(F)
        env = {}
        sy.term(fn["body"], env)
        taken = untaken = None
        for m in ms:
            for arm in m["arms"]:
                if "g" not in arm:
                    continue
                g = sy.ev(arm["g"], env)
                if not (is_call(g, "is_tainted") and is_call(g[2][0], "eval")):
                    continue
                p = T.pat_peel(arm["p"])
                if p.get("k") != "Leaf" or len(p["sub"]) != 2:
                    continue
                first, second = p["sub"][0]["p"], p["sub"][1]["p"]
                in_first = any(True for _ in SL.variant_subpatterns(first, "jmp::Jmp", "CBranch"))
                in_second = any(True for _ in SL.variant_subpatterns(second, "jmp::Jmp", "CBranch"))
                stops = is_none_adt(sy.ev(arm["b"], env))
                what = g[2][0][2][1]
                cond_ok = (what[0] == "field" and what[2].endswith("CBranch.condition")) or what[0] == "var"
                if in_first and not in_second:
                    taken = stops and cond_ok
                if in_second and not in_first:
                    untaken = stops and cond_ok
        site = F.loc(fn["body"])
        run.check("R2", "update_jump|taken-conditional", bool(taken), "a conditional jump whose condition depends on the value is a check: propagation along it must stop (None)", site)
        run.check("R2", "update_jump|untaken-conditional", bool(untaken), "the fall-through edge after a conditional jump on the value (untaken_conditional = Some(CBranch)) is the other outcome of the same check: propagation must stop there too", site)
        warns = any(T.is_call(x, "generate_cwe_warning") for x in T.walk_fn(F, fn))
        run.check("R2", "update_jump|no-warning", not warns, "a check of the value is not a dereference: update_jump must not generate warnings", site)
        # default: state propagated unchanged
        t = S.value(sy.term(fn["body"], {}))
        somes = [x for x in S.subterms(t) if isinstance(x, tuple) and x and x[0] == "adt" and x[2] == "Some" and dict(x[3])["0"][0] == "var" and dict(x[3])["0"][1] == "state"]
        run.check("R2", "update_jump|otherwise-propagate", bool(somes), "jumps that do not depend on the value must propagate the state unchanged", site)

    run.guarded("R2", r2)

    def r3():
        fn = F.fn("update_call_stub", mod=CTX)
        sy = S.Sym(F)
        env = {}
        t = sy.term(fn["body"], env)
        site = F.loc(fn["body"])
        ites = [x for x in S.subterms(t) if isinstance(x, tuple) and x and x[0] == "ite" and is_call(x[1], "check_extern_parameters_for_taint")]
        if not ites:
            run.violated("R3", "update_call_stub|extern-params-checked", "calls to library functions no longer test the DECLARED parameters of the symbol (check_extern_parameters_for_taint)", site)
            return
        x = ites[0]
        c = x[1]
        sym_from_target = any(is_call(y, "get") and any(isinstance(z, tuple) and z and z[0] == "field" and z[2] == "Call.target" for z in S.subterms(y)) for y in S.subterms(c))
        run.check("R3", "update_call_stub|symbol-by-call-target", sym_from_target, "the extern symbol whose parameters are checked must be looked up by the call's target", site)
        run.check("R3", "update_call_stub|on-state-before-call", c[2][0][0] == "var" and c[2][0][1] == "state", "parameters are checked on the state before the call", site)
        tb = x[2]
        warns = any(is_call(y, "generate_cwe_warning") for y in S.subterms(tb))
        run.check("R3", "update_call_stub|tainted-param-warns-and-stops", warns and is_none_adt(tb), "a tainted declared parameter must warn and stop", site)
        eb = x[3]
        clob = [y for y in S.subterms(eb) if is_call(y, "remove_non_callee_saved_taint")]
        cc_ok = bool(clob) and any(is_call(z, "get_calling_convention") for z in S.subterms(clob[0]))
        keeps = S.value(eb)[0] == "adt" and S.value(eb)[2] == "Some"
        run.check("R3", "update_call_stub|clobber-non-callee-saved", cc_ok and keeps, "after a library call the dependence ends for registers the callee may clobber (remove_non_callee_saved_taint with the symbol's calling convention) and continues for the rest", site)
        ms = T.find_matches(fn["body"], adt_suffix="jmp::Jmp")
        if ms:
            arms = T.arms_for_variant(ms[0], "CallInd")
            ok = bool(arms) and any(T.is_call(y, "update_call_generic") for y in T.walk(arms[0]["b"]))
            run.check("R3", "update_call_stub|indirect-calls-generic", ok, "indirect calls must be handled by the calling-convention based check (update_call_generic)", site)

    run.guarded("R3", r3)

    def r4():
        for name in ("update_call_generic", "update_call"):
            fn = F.fn(name, mod=CTX)
            t = S.Sym(F).term(fn["body"])
            site = F.loc(fn["body"])
            ites = [x for x in S.subterms(t) if isinstance(x, tuple) and x and x[0] == "ite" and is_call(x[1], "check_generic_function_params_for_taint")]
            run.check("R4", "%s|params-checked" % name, bool(ites) and any(is_call(y, "generate_cwe_warning") for y in S.subterms(ites[0][2])) if ites else False, "%s must warn when a calling-convention parameter register is tainted" % name, site)
            if name == "update_call":
                run.check("R4", "update_call|intraprocedural", is_none_adt(t), "the analysis is intraprocedural: update_call must not propagate into the callee (None)", site)
            else:
                if ites:
                    run.check("R4", "update_call_generic|stops-after-warning", is_none_adt(ites[0][2]), "after the warning propagation stops", site)
                    clob = any(is_call(y, "remove_non_callee_saved_taint") for y in S.subterms(ites[0][3]))
                    run.check("R4", "update_call_generic|clobber-non-callee-saved", clob, "after a call the dependence ends for registers the callee may clobber", site)
        fn = F.fn("check_generic_function_params_for_taint", mod="analysis::taint::state")
        t = S.Sym(F).term(fn["body"])
        ints = any(isinstance(x, tuple) and x and x[0] == "field" and x[2] == "integer_parameter_register" for x in S.subterms(t))
        floats = any(isinstance(x, tuple) and x and x[0] == "field" and x[2] == "float_parameter_register" for x in S.subterms(t)) and any(is_call(x, "input_vars") for x in S.subterms(t))
        run.check("R4", "generic-params|integer-registers", ints, "integer parameter registers of the calling convention must be checked", F.loc(fn["body"]))
        run.check("R4", "generic-params|float-registers", floats, "the input registers of the float parameter expressions of the calling convention must be checked", F.loc(fn["body"]))

    run.guarded("R4", r4)

    def r5():
        fn = F.fn("update_return_callee", mod=CTX)
        t = S.Sym(F).term(fn["body"])
        site = F.loc(fn["body"])
        ites = [x for x in S.subterms(t) if isinstance(x, tuple) and x and x[0] == "ite" and is_call(x[1], "check_return_values_for_taint")]
        run.check("R5", "update_return_callee|return-registers-checked", bool(ites) and any(is_call(y, "generate_cwe_warning") for y in S.subterms(ites[0][2])) if ites else False, "a return that passes the value to a caller inside the program must warn (return registers of the calling convention)", site)
        res = S.value(t)
        run.check("R5", "update_return_callee|empty-state", res[0] == "adt" and res[2] == "Some" and is_call(dict(res[3])["0"], "new_empty"), "the callee's taint must not flow into the caller: an empty state is returned", site)

    run.guarded("R5", r5)

    def r6():
        for name, valfn in (("update_def_assign", "eval"), ("update_def_load", "load_taint_from_memory")):
            fn = F.fn(name, trait="TaintAnalysis", mod="analysis::taint")
            sy = S.Sym(F)
            env = {}
            t = sy.term(fn["body"], env)
            site = F.loc(fn["body"])
            sets = [x for x in S.subterms(t) if is_call(x, "set_register_taint")]
            ok = len(sets) == 1 and sets[0][2][1][0] == "var" and sets[0][2][1][1] == "var"
            val = sets[0][2][2] if sets else None
            not_merged = val is not None and not any(is_call(y, ("merge", "get_register_taint")) for y in S.subterms(val))
            run.check("R6", "%s|defined-variable-overwritten" % name, ok and not_merged, "%s must set the taint of the DEFINED variable to the newly computed taint (not merge it with the old one); found %s" % (name, fmt(sets[0]) if sets else "no set_register_taint"), site)
            if name == "update_def_assign" and val is not None:
                run.check("R6", "update_def_assign|taint-of-value-on-old-state", is_call(val, "eval") and val[2][0][0] == "var" and val[2][0][1] == "state" and val[2][1][0] == "var" and val[2][1][1] == "value", "the new taint of the variable is the taint of the assigned expression in the state before the assignment; found %s" % fmt(val), site)
        fn = F.fn("set_register_taint", adt="State", mod="analysis::taint::state")
        t = S.value(S.Sym(F).term(fn["body"]))
        ok = t[0] == "ite" and is_call(t[1], "is_top") and any(is_call(y, "remove") for y in S.subterms(t[2])) and any(is_call(y, "insert") for y in S.subterms(t[3]))
        run.check("R6", "set_register_taint|untainted-removes-entry", ok, "writing an untainted value must remove the register's taint entry (dependence ends), a tainted one must replace it; found %s" % fmt(t)[:160], F.loc(fn["body"]))
        # generic update_def dispatch: each Def variant goes to its own transfer and then to update_def_post(old, new)
        cands = [f for f in F.find_fns(name="update_def", mod="analysis::taint") if f["dk"] != "Closure"]
        if not cands:
            raise T.AnchorMissing("generic TaintAnalysis update_def")
        fn = cands[0]
        ms = T.find_matches(fn["body"], adt_suffix="def::Def")
        want = {"Assign": "update_def_assign", "Load": "update_def_load", "Store": "update_def_store"}
        for v, callee in want.items():
            arms = T.arms_for_variant(ms[0], v) if ms else []
            ok = bool(arms) and any(T.is_call(x, callee) for x in T.walk(arms[0]["b"]))
            run.check("R6", "update_def|dispatch|%s" % v, ok, "Def::%s must be handled by %s" % (v, callee), F.loc(fn["body"]))
        t = S.Sym(F).term(fn["body"])
        posts = [x for x in S.subterms(t) if is_call(x, "update_def_post")]
        ok = bool(posts) and posts[0][2][1][0] == "var" and posts[0][2][1][1] == "state" and posts[0][2][2][0] == "match"
        run.check("R6", "update_def|post-gets-old-and-new", ok, "update_def_post must receive (state before, state after, def) in that order", F.loc(fn["body"]))

    run.guarded("R6", r6)

    def r7():
        n = 0
        for name in ("update_call_generic", "update_call_stub", "update_def_post", "update_call", "update_return_callee"):
            fn = F.fn(name, mod=CTX)
            sy = S.Sym(F)
            env = {}
            sy.term(fn["body"], env)
            for node, conds in T.paths_to(fn["body"], lambda x: x.get("k") == "Adt" and x["adt"].endswith("option::Option") and x["v"] == "None"):
                # only Nones that are (part of) the function result under a positive taint test
                pos = False
                for cd in conds:
                    c = None
                    if cd[0] == "if":
                        c = sy.ev(cd[1], env)
                        pol = cd[2]
                    if c is not None and pol and (is_call(c, ("is_tainted",)) or (is_call(c) and c[1].startswith("check_") and c[1].endswith("_for_taint"))):
                        pos = True
                if not pos:
                    continue
                n += 1
                # a warning on the same path: a generate_cwe_warning call in the same branch body
                branch = None
                for cd in reversed(conds):
                    if cd[0] == "if" and cd[2]:
                        branch = cd
                        break
                warned = False
                for nd in T.walk(fn["body"]):
                    if nd.get("k") == "If" and branch is not None and nd["c"] is branch[1]:
                        warned = any(T.is_call(x, "generate_cwe_warning") for x in T.walk(nd["th"]))
                    if nd.get("k") == "Match":
                        for arm in nd["arms"]:
                            if branch is not None and arm.get("g") is branch[1]:
                                warned = any(T.is_call(x, "generate_cwe_warning") for x in T.walk(arm["b"]))
                run.check("R7", "%s|stop-has-warning|%d" % (name, n), warned, "%s stops the propagation after a positive taint test without generating the warning" % name, F.loc(node))
        run.floor("stops after positive taint tests", n, 3)

    run.guarded("R7", r7)

    def r8():
        fn = F.fn("check_cwe", mod="checkers::cwe_476")
        sy = S.Sym(F)
        env = {}
        t = sy.term(fn["body"], env)
        site = F.loc(fn["body"])
        sets = [(n, c) for n, c in T.paths_to(fn["body"], lambda x: T.is_call(x, "set_node_value"))]
        ok = False
        for n, conds in sets:
            node = sy.ev(n["a"][1], env)
            # seeded at the TARGET node of the ExternCallStub edge (the return site)
            seeded = is_call(node, "target")
            guards = [cd for cd in conds if cd[0] in ("letelse",)]
            texts = " ".join(T.show_pat(cd[1]["p"]) for cd in guards)
            in_map = any(is_call(sy.ev(cd[1]["i"], env), "get") and any(isinstance(y, tuple) and y and y[0] == "field" and y[2].endswith("Call.target") for y in S.subterms(sy.ev(cd[1]["i"], env))) for cd in guards if "i" in cd[1])
            ok = seeded and "ExternCallStub" in texts and "Call" in texts and in_map
        run.check("R8", "check_cwe|one-computation-per-source-call", ok, "a taint computation must be started for every ExternCallStub edge whose call target is a configured symbol, seeded at the node the call returns to", site)
        sm = [x for x in S.subterms(t) if is_call(x, "get_symbol_map")]
        run.check("R8", "check_cwe|configured-symbols", bool(sm) and any(isinstance(y, tuple) and y and y[0] == "field" and y[2] == "symbols" for y in S.subterms(sm[0])), "the sources are the symbols configured for this check", site)
        ins = [x for x in S.subterms(t) if is_call(x, ("insert", "entry", "push")) and ("BTreeMap" in x[3] or "HashMap" in x[3] or "Vec" in x[3]) and any(isinstance(y, tuple) and y and y[0] == "elem" for y in S.subterms(x))]
        ok = bool(ins) and all("BTreeMap" in x[3] and x[1] == "insert" for x in ins)
        run.check("R8", "check_cwe|dedup-by-source-address-ordered", ok, "warnings must be deduplicated per source address in an ordered map (one warning per source call, deterministic choice)", site)
        exits = [x for x in T.walk(fn["body"]) if x.get("k") in ("Break", "Return") and x.get("ds") != "ForLoop"]
        run.check("R8", "check_cwe|all-sources-visited", not exits, "the loop over the call edges must not stop early", site)

    run.guarded("R8", r8)
