"""C15 NULL-dereference check flags exactly the unchecked flows -- taint transfer table.

The iff over all paths of all programs is not decided. Decided: the per-edge / per-definition
action table of cwe_476::Context and of the generic taint transfer it builds on, which is
the property statement read row by row (R1..R8 as in DESIGN.md section 3/C15).
 R6+ (added after seed C15c) no Taint::Top is ever written into the register map (eval decides by key presence)
"""
from .lib import slots as SL
from .lib import sym as S
from .lib import thir as T
from .lib.sym import fmt


def is_call(t, name=None):
    return isinstance(t, tuple) and t and t[0] == "call" and (name is None or t[1] == name or (isinstance(name, (set, tuple, frozenset)) and t[1] in name))


def stmts_of(t):
    return list(t[1]) + [t[2]] if t[0] == "seq" else [t]


def is_none_adt(t):
    t = S.value(t)
    return t[0] == "adt" and t[1].endswith("option::Option") and t[2] == "None"


def run(run):
    F = run.facts()
    run.explanation = (
        "Static action-table analysis of the NULL-dereference taint analysis: for every transfer function of checkers::cwe_476::Context "
        "and the generic TaintAnalysis defaults it relies on, the match tables and guards are extracted from the THIR and compared with "
        "the rows of the property statement: which Def variants with an address slot (derived from the type definition) are sinks and "
        "on which state (the one before the definition) the address is evaluated; both positions of (jump, untaken conditional) stop "
        "taint on a tainted condition without warning; extern calls warn on declared parameters else clobber; generic calls check "
        "integer and float parameter registers; returns check return registers; overwriting a register replaces its taint; every "
        "`None` after a positive taint test is preceded by a warning except in update_jump; one computation per configured source call, "
        "deduplicated by source address. Decides the transfer table, not the path-sensitive iff.")
    run.rule("R1", "Load/Store with tainted ADDRESS (evaluated on the state before the definition) warn and stop")
    run.rule("R2", "tainted condition of the taken or the untaken conditional stops propagation without warning")
    run.rule("R3", "extern call: warn iff a declared parameter is tainted, else remove non-callee-saved taint")
    run.rule("R4", "indirect/internal call: calling-convention parameter registers (integer and float) are checked")
    run.rule("R5", "return inside the program: return registers checked, empty state returned")
    run.rule("R6", "register overwrite replaces the taint of the defined variable")
    run.rule("R7", "every stop after a positive taint test is paired with a warning, except in update_jump")
    run.rule("R8", "one computation per configured source call seeded at the return node; dedup by source address in an ordered map")

    CTX = "checkers::cwe_476::context"
    defadt = F.adt("intermediate_representation::def::Def")
    addr_variants = [v["name"] for v in defadt["variants"] if any(f["name"] == "address" for f in v["fields"])]
    run.floor("Def variants with an address", len(addr_variants), 2)

    from .lib import peval as PE
    from .lib import numflow as NF

    def rootid(n):
        """local behind clones / borrows / field projections"""
        n = T.peel(n)
        while n.get("k") == "Call" and n.get("n") in ("clone", "to_owned", "cloned") and n.get("a"):
            n = T.peel(n["a"][0])
        return T.root_var_id(n)

    def param_id(fn, name):
        for p_ in fn["params"]:
            if p_.get("p"):
                for b in T.pat_bindings(p_["p"]):
                    if b[1] == name:
                        return b[0]
        return None

    def taint_test(n):
        """a boolean expression that is (or wraps, e.g. through `any(|c| ..is_tainted())`) a taint test"""
        if n.get("k") != "Call" or F.ty(n) != "bool":
            return False
        if n.get("n") in ("is_tainted", "check_extern_parameters_for_taint", "check_generic_function_params_for_taint", "check_return_values_for_taint"):
            return True
        for a in n.get("a", []):
            a = T.peel(a)
            if a.get("k") == "Closure":
                try:
                    if any(T.is_call(y, "is_tainted") for y in T.walk(F.closure_by_path(a["d"])["body"])):
                        return True
                except T.AnchorMissing:
                    pass
        return False

    def scenario(fn, enum_nodes, tainted, extra=None, follow=False):
        """results and reachable nodes of fn when the nodes in enum_nodes (id -> variant) have the given variants, every taint
        test is `tainted`, and the tracked state is not empty"""
        hits = {"taint": 0}

        def assume(n):
            if id(n) in enum_nodes:
                return ("enum", enum_nodes[id(n)])
            if taint_test(n):
                hits["taint"] += 1
                return ("bool", tainted)
            if n.get("k") == "Call" and n.get("n") == "is_empty" and F.ty(n) == "bool" and n.get("a") and "State" in F.ty(T.peel(n["a"][0])):
                return ("bool", False)
            if extra is not None:
                return extra(n)
            return None
        res, nodes = PE.Spec(F, assume=assume, follow_calls=follow).results(fn["body"], {})
        return res, nodes, hits

    def scrutinees_of(fn, adt_suffix):
        ms = T.find_matches(fn["body"], adt_suffix=adt_suffix, deep=True) if "deep" in T.find_matches.__code__.co_varnames else T.find_matches(fn["body"], adt_suffix=adt_suffix)
        out = {}
        for m in ms:
            out[id(m["e"])] = m
            out[id(T.peel(m["e"]))] = m
        # if-let / let-else on the same type
        for n in T.walk_fn(F, fn):
            if n.get("k") == "Let" and T.pat_mentions_adt(n["p"], adt_suffix):
                out[id(n["e"])] = n
                out[id(T.peel(n["e"]))] = n
        return out

    def r1():
        fn = F.fn("update_def_post", mod=CTX)
        scr = scrutinees_of(fn, "def::Def")
        if not scr:
            raise T.AnchorMissing("update_def_post does not inspect the Def")
        flow = NF.Flow(F, fn)
        site = F.loc(fn["body"])
        old_id, new_id = param_id(fn, "old_state"), param_id(fn, "new_state")
        all_variants = [v["name"] for v in defadt["variants"]]
        for v in all_variants:
            enum_nodes = {k: v for k in scr}
            is_sink = v in addr_variants
            key = "update_def_post|%s" % v
            res_t, nodes_t, hits_t = scenario(fn, enum_nodes, True)
            res_f, nodes_f, hits_f = scenario(fn, enum_nodes, False)
            kinds_t = [PE.option_kind(x) for x in res_t]
            kinds_f = [PE.option_kind(x) for x in res_f]
            if is_sink:
                if not hits_t["taint"]:
                    run.violated("R1", key, "a Def::%s whose address depends on the unchecked return value is not treated as a dereference: no taint test is reachable for it" % v, site)
                    continue
                warns = any(T.is_call(x, "generate_cwe_warning") for x in nodes_t)
                if kinds_t and all(k_ == "None" for k_ in kinds_t) and warns:
                    run.holds("R1", key + "|warns-and-stops", "", site)
                elif any(isinstance(k_, tuple) for k_ in kinds_t):
                    run.violated("R1", key + "|warns-and-stops", "with a tainted address the Def::%s still propagates a state: a tainted dereference must generate a warning and stop the propagation (None)" % v, site)
                elif not warns and kinds_t and all(k_ == "None" for k_ in kinds_t):
                    run.violated("R1", key + "|warns-and-stops", "with a tainted address the Def::%s stops the propagation without generating the warning" % v, site)
                else:
                    run.undecided("R1", key + "|warns-and-stops", "results %s" % kinds_t, site)
                # what is tested, and on which state
                tests = [x for x in nodes_t if T.is_call(x, "is_tainted")]
                evs = [y for t_ in tests for y in T.walk(flow.definition(t_["a"][0])) if T.is_call(y, "eval") and len(y["a"]) == 2]
                aid = {b[0] for b in SL.slot_bindings(F, fn, "def::Def", v, "address")}
                other_ids = set()
                for fld in [f["name"] for vv in defadt["variants"] if vv["name"] == v for f in vv["fields"] if f["name"] not in ("address", "var")]:
                    other_ids |= {b[0] for b in SL.slot_bindings(F, fn, "def::Def", v, fld)}

                def roots(n, depth=0):
                    out = set()
                    for y in T.walk(n):
                        if y.get("k") in ("Var", "Upvar"):
                            out.add(y["id"])
                            d = flow.definition(y)
                            if d is not y and depth < 4 and d.get("k") not in ("Var", "Upvar"):
                                out |= roots(d, depth + 1)
                        if y.get("k") == "Field" and y.get("fn") == "address":
                            out.add("field:address")
                        if y.get("k") == "Field" and y.get("fn") == "value":
                            out.add("field:value")
                    return out
                if not evs:
                    run.undecided("R1", key + "|address-slot", "taint test without a visible eval()", site)
                else:
                    r_ = set()
                    for e_ in evs:
                        r_ |= roots(e_["a"][1])
                    if (r_ & aid) or "field:address" in r_:
                        run.holds("R1", key + "|address-slot", "", site)
                    elif (r_ & other_ids) or "field:value" in r_:
                        run.violated("R1", key + "|address-slot", "the sink test of Def::%s must evaluate the ADDRESS expression; it evaluates another slot of the Def" % v, site)
                    else:
                        run.undecided("R1", key + "|address-slot", "evaluated expression not traced to a slot of the Def", site)
                    defines_register = any(f["name"] == "var" for vv in defadt["variants"] if vv["name"] == v for f in vv["fields"])
                    recv = {T.root_var_id(e_["a"][0]) for e_ in evs}
                    if recv == {old_id}:
                        run.holds("R1", key + "|state-before-def", "", site)
                    elif new_id in recv and defines_register:
                        run.violated("R1", key + "|state-before-def", "the address is evaluated on the state AFTER the definition (new_state): for `R = Load(R)` the new state has already overwritten the tainted register", site)
                    elif new_id in recv:
                        run.holds("R1", key + "|state-before-def", "new_state is equivalent here: Def::%s defines no register" % v, site)
                    else:
                        run.undecided("R1", key + "|state-before-def", "state not traced", site)
            # untainted address / no sink: the NEW state is propagated
            kk = kinds_f if is_sink else [PE.option_kind(x) for x in scenario(fn, enum_nodes, True)[0]]
            good = kk and all(isinstance(k_, tuple) and k_[1] is not None and rootid(k_[1]) == new_id for k_ in kk)
            bad_old = any(isinstance(k_, tuple) and k_[1] is not None and rootid(k_[1]) == old_id for k_ in kk)
            stops = any(k_ == "None" for k_ in kk)
            k2 = "update_def_post|%s|otherwise-new-state" % v
            if good:
                run.holds("R1", k2, "", site)
            elif bad_old:
                run.violated("R1", k2, "a Def::%s that is no sink continues with the OLD state: the effect of the definition on the taint is lost" % v, site)
            elif stops and not is_sink:
                run.violated("R1", k2, "a Def::%s, which is never a dereference, can stop the propagation" % v, site)
            elif stops:
                run.violated("R1", k2, "a Def::%s with an untainted address stops the propagation" % v, site)
            else:
                run.undecided("R1", k2, "results %s" % kk, site)

    run.guarded("R1", r1)

    def r2():
        fn = F.fn("update_jump", mod=CTX)
        site = F.loc(fn["body"])
        flow = NF.Flow(F, fn)
        jid, uid = param_id(fn, "jump"), param_id(fn, "untaken_conditional")

        def shape(jump_kind, untaken):
            """assumption on the inputs: variant of jump.term, and whether an untaken conditional jump exists"""
            def extra(n):
                m = T.peel(n)
                if m.get("k") == "Field" and m.get("fn") == "term" and T.root_var_id(m) == jid:
                    return ("enum", jump_kind)
                if m.get("k") in ("Var", "Upvar") and m.get("id") == uid:
                    return ("enum", "Some" if untaken else "None")
                return None
            return extra
        res_f, nodes_f, hits_f = scenario(fn, {}, False, shape("Branch", True))
        tests = [x for x in T.walk_fn(F, fn) if taint_test(x)]
        # which inputs reach a taint test: the jump itself (taken conditional) and the untaken conditional
        res_by = {jid: scenario(fn, {}, True, shape("CBranch", False))[0], uid: scenario(fn, {}, True, shape("Branch", True))[0]}

        def depends(n, pid, depth=0, seen=None):
            seen = seen if seen is not None else set()
            for y in T.walk(n):
                if y.get("k") in ("Var", "Upvar"):
                    if y["id"] == pid:
                        return True
                    if y["id"] in seen:
                        continue
                    seen.add(y["id"])
                    d = flow.init.get(y["id"])
                    if d is not None and depth < 6 and depends(d, pid, depth + 1, seen):
                        return True
                if y.get("k") == "Closure":
                    try:
                        if depends(F.closure_by_path(y["d"])["body"], pid, depth + 1, seen):
                            return True
                    except T.AnchorMissing:
                        pass
            return False
        # pattern bindings from `match (&jump.term, untaken_conditional)`-style scrutinees: bindings depend on the scrutinee
        for n in T.walk_fn(F, fn):
            if n.get("k") == "Match":
                for a in n["arms"]:
                    for b in T.pat_bindings(a["p"]):
                        flow.init.setdefault(b[0], n["e"])
            if n.get("k") == "Let":
                for b in T.pat_bindings(n["p"]):
                    flow.init.setdefault(b[0], n["e"])
        for label, pid, what in (("taken-conditional", jid, "a conditional jump whose condition depends on the value is a check: propagation along it must stop (None)"),
                                 ("untaken-conditional", uid, "the fall-through edge after a conditional jump on the value (untaken_conditional = Some(CBranch)) is the other outcome of the same check: propagation must stop there too")):
            key = "update_jump|%s" % label
            reaching = [t_ for t_ in tests if depends(t_, pid) or any(depends(g_["g"], pid) for m_ in T.walk_fn(F, fn) if m_.get("k") == "Match" for g_ in m_["arms"] if "g" in g_ and any(y is t_ for y in T.walk(g_["g"])) and depends(m_["e"], pid))]
            if not tests:
                run.violated("R2", key, what + " -- update_jump contains no taint test at all", site)
            elif not reaching:
                run.violated("R2", key, what + " -- no taint test depends on `%s`" % ("jump" if pid == jid else "untaken_conditional"), site)
            else:
                kinds = [PE.option_kind(x) for x in res_by[pid]]
                if kinds and all(k_ == "None" for k_ in kinds):
                    run.holds("R2", key, "", site)
                elif any(isinstance(k_, tuple) for k_ in kinds):
                    run.violated("R2", key, what + " -- with a tainted condition a state is still propagated", site)
                else:
                    run.undecided("R2", key, "results %s" % kinds, site)
        warns = any(T.is_call(x, "generate_cwe_warning") for x in T.walk_fn(F, fn))
        run.check("R2", "update_jump|no-warning", not warns, "a check of the value is not a dereference: update_jump must not generate warnings", site)
        kinds = [PE.option_kind(x) for x in res_f]
        sid = param_id(fn, "state")
        good = kinds and all(isinstance(k_, tuple) and k_[1] is not None and rootid(k_[1]) == sid for k_ in kinds)
        if good:
            run.holds("R2", "update_jump|otherwise-propagate", "", site)
        elif any(k_ == "None" for k_ in kinds):
            run.violated("R2", "update_jump|otherwise-propagate", "a jump whose condition does not depend on the value stops the propagation", site)
        else:
            run.undecided("R2", "update_jump|otherwise-propagate", "results %s" % kinds, site)

    run.guarded("R2", r2)

    def r3():
        fn = F.fn("update_call_stub", mod=CTX)
        site = F.loc(fn["body"])
        flow = NF.Flow(F, fn)
        scr = scrutinees_of(fn, "jmp::Jmp")
        checks = [x for x in T.walk_fn(F, fn) if T.is_call(x, "check_extern_parameters_for_taint")]
        if not checks:
            run.violated("R3", "update_call_stub|extern-params-checked", "calls to library functions no longer test the DECLARED parameters of the symbol (check_extern_parameters_for_taint)", site)
            return
        c = checks[0]
        # the symbol is looked up by the call target
        def mentions_target(n, depth=0):
            for y in T.walk(n):
                if y.get("k") in ("Var", "Upvar"):
                    if y.get("n") == "target":
                        return True
                    d = flow.init.get(y["id"])
                    if d is not None and depth < 5 and mentions_target(d, depth + 1):
                        return True
                if y.get("k") == "Field" and y.get("fn") == "target":
                    return True
            return False
        for n in T.walk_fn(F, fn):
            if n.get("k") == "Match":
                for a in n["arms"]:
                    for b in T.pat_bindings(a["p"]):
                        flow.init.setdefault(b[0], n)
            if n.get("k") == "Let":
                for b in T.pat_bindings(n["p"]):
                    flow.init.setdefault(b[0], n["e"])
        sym_args = [a for a in c["a"][1:]]
        sym_from_target = any(mentions_target(a) and any(T.is_call(y, "get") for y in T.walk(flow.definition(a))) or any(T.is_call(y, "get") and mentions_target(y) for y in T.walk(flow.definition(a))) for a in sym_args)
        (run.holds if sym_from_target else run.undecided)("R3", "update_call_stub|symbol-by-call-target", "the extern symbol whose parameters are checked must be looked up by the call's target", site)
        sid = param_id(fn, "state")
        st_arg = [T.root_var_id(a) for a in c["a"]]
        if sid in st_arg:
            run.holds("R3", "update_call_stub|on-state-before-call", "", site)
        else:
            run.undecided("R3", "update_call_stub|on-state-before-call", "state argument not traced", site)
        enum_nodes = {k: "Call" for k in scr}
        res_t, nodes_t, _ = scenario(fn, enum_nodes, True)
        res_f, nodes_f, _ = scenario(fn, enum_nodes, False)
        kinds_t = [PE.option_kind(x) for x in res_t]
        warns = any(T.is_call(x, "generate_cwe_warning") for x in nodes_t)
        if kinds_t and all(k_ == "None" for k_ in kinds_t) and warns:
            run.holds("R3", "update_call_stub|tainted-param-warns-and-stops", "", site)
        elif any(isinstance(k_, tuple) for k_ in kinds_t):
            run.violated("R3", "update_call_stub|tainted-param-warns-and-stops", "with a tainted declared parameter a state is still propagated: a tainted parameter must warn and stop", site)
        elif kinds_t and all(k_ == "None" for k_ in kinds_t) and not warns:
            run.violated("R3", "update_call_stub|tainted-param-warns-and-stops", "with a tainted declared parameter the propagation stops without a warning", site)
        else:
            run.undecided("R3", "update_call_stub|tainted-param-warns-and-stops", "results %s" % kinds_t, site)
        kinds_f = [PE.option_kind(x) for x in res_f]
        clob = [y for y in nodes_f if T.is_call(y, "remove_non_callee_saved_taint")]
        cc_ok = bool(clob) and any(any(T.is_call(z, "get_calling_convention") for z in T.walk(flow.definition(a))) or any(T.is_call(z, "get_calling_convention") for z in T.walk(a)) for a in clob[0]["a"])
        keeps = kinds_f and all(isinstance(k_, tuple) for k_ in kinds_f)
        if cc_ok and keeps:
            run.holds("R3", "update_call_stub|clobber-non-callee-saved", "", site)
        elif not clob:
            run.violated("R3", "update_call_stub|clobber-non-callee-saved", "after a library call the dependence ends for registers the callee may clobber: remove_non_callee_saved_taint is not reachable for an untainted call", site)
        elif any(k_ == "None" for k_ in kinds_f):
            run.violated("R3", "update_call_stub|clobber-non-callee-saved", "a library call without tainted parameters stops the propagation", site)
        else:
            run.undecided("R3", "update_call_stub|clobber-non-callee-saved", "calling convention argument not traced", site)
        if scr:
            enum_nodes = {k: "CallInd" for k in scr}
            _, nodes_i, _ = scenario(fn, enum_nodes, False)
            ok = any(T.is_call(y, "update_call_generic") for y in nodes_i)
            (run.holds if ok else run.violated)("R3", "update_call_stub|indirect-calls-generic", "indirect calls must be handled by the calling-convention based check (update_call_generic)", site)

    run.guarded("R3", r3)

    def r4():
        from .lib import mayflow as MF
        for name in ("update_call_generic", "update_call"):
            fn = F.fn(name, mod=CTX)
            site = F.loc(fn["body"])
            res_t, nodes_t, hits_t = scenario(fn, {}, True, follow=True)
            res_f, nodes_f, hits_f = scenario(fn, {}, False, follow=True)
            kinds_t = [PE.option_kind(x) for x in res_t]
            kinds_f = [PE.option_kind(x) for x in res_f]
            generic_test = any(T.is_call(x, "check_generic_function_params_for_taint") for x in nodes_t)
            warns_t = any(T.is_call(x, "generate_cwe_warning") for x in nodes_t)
            warns_f = any(T.is_call(x, "generate_cwe_warning") for x in nodes_f)
            run.check("R4", "%s|params-checked" % name, generic_test and hits_t["taint"] > 0 and warns_t and not warns_f, "%s must warn exactly when a calling-convention parameter register is tainted (parameter test reached: %s, warning when tainted: %s, warning when untainted: %s)" % (name, generic_test, warns_t, warns_f), site)
            if name == "update_call":
                allnone = bool(kinds_t) and all(k_ == "None" for k_ in kinds_t + kinds_f)
                run.check("R4", "update_call|intraprocedural", allnone, "the analysis is intraprocedural: update_call must not propagate into the callee (None)", site)
            else:
                if kinds_t and all(k_ == "None" for k_ in kinds_t):
                    run.holds("R4", "update_call_generic|stops-after-warning", "", site)
                elif any(isinstance(k_, tuple) for k_ in kinds_t):
                    run.violated("R4", "update_call_generic|stops-after-warning", "after the warning the propagation must stop (None); a state is still propagated", site)
                else:
                    run.undecided("R4", "update_call_generic|stops-after-warning", "results %s" % kinds_t, site)
                clob = any(T.is_call(x, "remove_non_callee_saved_taint") for x in nodes_f)
                cont = bool(kinds_f) and all(isinstance(k_, tuple) for k_ in kinds_f)
                run.check("R4", "update_call_generic|clobber-non-callee-saved", clob and cont, "after a call without tainted parameters the propagation continues and the dependence ends for registers the callee may clobber", site)
        fn = F.fn("check_generic_function_params_for_taint", mod="analysis::taint::state")
        checks = [x for x in T.walk_fn(F, fn) if T.is_call(x, "check_register_list_for_taint")]
        for fld, key in (("integer_parameter_register", "integer-registers"), ("float_parameter_register", "float-registers")):
            mf = MF.MayFlow(F, seed=lambda y, fld=fld: y.get("k") == "Field" and y.get("fn") == fld)
            mf.run(fn, set())
            ids = mf.reached.get(fn["path"], set())
            ok = any(mf.mentions(a, ids) for c in checks for a in c["a"][1:])
            if fld.startswith("float"):
                ok = ok and any(T.is_call(x, "input_vars") and mf.mentions(x, ids) for x in T.walk_fn(F, fn))
            what = "integer parameter registers of the calling convention must be checked" if fld.startswith("integer") else "the input registers of the float parameter expressions of the calling convention must be checked"
            run.check("R4", "generic-params|%s" % key, ok, what, F.loc(fn["body"]))

    run.guarded("R4", r4)

    def r5():
        fn = F.fn("update_return_callee", mod=CTX)
        t = S.Sym(F).term(fn["body"])
        site = F.loc(fn["body"])
        ites = [x for x in S.subterms(t) if isinstance(x, tuple) and x and x[0] == "ite" and is_call(x[1], "check_return_values_for_taint")]
        run.check("R5", "update_return_callee|return-registers-checked", bool(ites) and any(is_call(y, "generate_cwe_warning") for y in S.subterms(ites[0][2])) if ites else False, "a return that passes the value to a caller inside the program must warn (return registers of the calling convention)", site)
        res = S.value(t)
        run.check("R5", "update_return_callee|empty-state", res[0] == "adt" and res[2] == "Some" and is_call(dict(res[3])["0"], "new_empty"), "the callee's taint must not flow into the caller: an empty state is returned", site)

    run.guarded("R5", r5)

    def r6():
        for name, valfn in (("update_def_assign", "eval"), ("update_def_load", "load_taint_from_memory")):
            fn = F.fn(name, trait="TaintAnalysis", mod="analysis::taint")
            sy = S.Sym(F)
            env = {}
            t = sy.term(fn["body"], env)
            site = F.loc(fn["body"])
            sets = [x for x in S.subterms(t) if is_call(x, "set_register_taint")]
            ok = len(sets) == 1 and sets[0][2][1][0] == "var" and sets[0][2][1][1] == "var"
            val = sets[0][2][2] if sets else None
            not_merged = val is not None and not any(is_call(y, ("merge", "get_register_taint")) for y in S.subterms(val))
            run.check("R6", "%s|defined-variable-overwritten" % name, ok and not_merged, "%s must set the taint of the DEFINED variable to the newly computed taint (not merge it with the old one); found %s" % (name, fmt(sets[0]) if sets else "no set_register_taint"), site)
            if name == "update_def_assign" and val is not None:
                run.check("R6", "update_def_assign|taint-of-value-on-old-state", is_call(val, "eval") and val[2][0][0] == "var" and val[2][0][1] == "state" and val[2][1][0] == "var" and val[2][1][1] == "value", "the new taint of the variable is the taint of the assigned expression in the state before the assignment; found %s" % fmt(val), site)
        fn = F.fn("set_register_taint", adt="State", mod="analysis::taint::state")
        tid_ = param_id(fn, "taint")
        if tid_ is None:
            tids = [b[0] for p_ in fn["params"] if p_.get("p") for b in T.pat_bindings(p_["p"]) if F.tyi(p_["p"]["t"]).endswith("Taint")]
            tid_ = tids[0] if tids else None

        def taint_case(top):
            hits = {"n": 0}

            def assume(n):
                k = n.get("k")
                if k == "Call" and n.get("n") in ("is_top", "is_tainted") and n.get("a") and T.root_var_id(n["a"][0]) == tid_:
                    hits["n"] += 1
                    return ("bool", top == (n["n"] == "is_top"))
                if k in ("Var", "Upvar") and n.get("id") == tid_ and (F.ty(n) or "").replace("&", "").strip().endswith("Taint"):
                    hits["n"] += 1
                    return ("enum", "Top" if top else "Tainted")
                return None
            nodes = PE.Spec(F, assume=assume).reach(fn["body"], {})
            rem = any(T.is_call(x, "remove") for x in nodes)
            ins = any(T.is_call(x, ("insert", "or_insert", "or_insert_with", "insert_entry")) for x in nodes)
            return rem, ins, hits["n"]
        rem_t, ins_t, h1 = taint_case(True)
        rem_f, ins_f, h2 = taint_case(False)
        if not h1 and not h2 and not (rem_t and ins_t):
            run.undecided("R6", "set_register_taint|untainted-removes-entry", "no test of the written taint value found", F.loc(fn["body"]))
        else:
            run.check("R6", "set_register_taint|untainted-removes-entry", rem_t and not ins_t and ins_f and not rem_f, "writing an untainted value must remove the register's taint entry (dependence ends), a tainted one must replace it; untainted: remove=%s insert=%s, tainted: remove=%s insert=%s" % (rem_t, ins_t, rem_f, ins_f), F.loc(fn["body"]))
        # the register map never HOLDS an untainted entry: State::eval and the merge decide by key presence, so a register is
        # untainted exactly when it has no entry. Positive evidence of a violation: a Taint::Top written into the map.
        from .lib import bindsrc as B
        tops = []
        for g in F.fns:
            if g.get("dk") == "Closure" or not (g["mod"].endswith("taint::state") or g["mod"].endswith("analysis::taint")) or ("expn" in g and "Derive" in g["expn"]):
                continue
            roots_g = B.bodies(F, g)
            for x in T.walk_fn(F, g):
                rhs = None
                target = None
                if x.get("k") == "Assign":
                    rhs, target = T.peel(x["r"]), x["l"]
                elif T.is_call(x, ("insert", "or_insert", "replace")) and x.get("a") and len(x["a"]) >= 2:
                    rhs, target = T.peel(x["a"][-1]), x["a"][0]
                if rhs is None or not (rhs.get("k") == "Adt" and rhs.get("adt", "").endswith("Taint") and rhs.get("v") == "Top"):
                    continue
                into_map = any(y.get("k") == "Field" and y.get("fn") == "register_taint" for e_, h_ in B.sources(F, roots_g, target) for y in B.walk_with_closures(F, e_))
                if into_map:
                    tops.append((g, x))
        key = "register_taint|no-untainted-entries"
        if tops:
            g, x = tops[0]
            run.violated("R6", key, "%s writes Taint::Top into the register map: the entry stays, and State::eval (which decides by key presence) treats the register as tainted again -- the dependence does not end" % g["name"], F.loc(x))
        else:
            run.holds("R6", key, "no Taint::Top is written into register_taint", None)
        # generic update_def dispatch: each Def variant goes to its own transfer and then to update_def_post(old, new)
        cands = [f for f in F.find_fns(name="update_def", mod="analysis::taint") if f["dk"] != "Closure"]
        if not cands:
            raise T.AnchorMissing("generic TaintAnalysis update_def")
        fn = cands[0]
        ms = T.find_matches(fn["body"], adt_suffix="def::Def")
        want = {"Assign": "update_def_assign", "Load": "update_def_load", "Store": "update_def_store"}
        for v, callee in want.items():
            arms = T.arms_for_variant(ms[0], v) if ms else []
            ok = bool(arms) and any(T.is_call(x, callee) for x in T.walk(arms[0]["b"]))
            run.check("R6", "update_def|dispatch|%s" % v, ok, "Def::%s must be handled by %s" % (v, callee), F.loc(fn["body"]))
        t = S.Sym(F).term(fn["body"])
        posts = [x for x in S.subterms(t) if is_call(x, "update_def_post")]
        ok = bool(posts) and posts[0][2][1][0] == "var" and posts[0][2][1][1] == "state" and posts[0][2][2][0] == "match"
        run.check("R6", "update_def|post-gets-old-and-new", ok, "update_def_post must receive (state before, state after, def) in that order", F.loc(fn["body"]))

    run.guarded("R6", r6)

    def r7():
        n = 0
        for name in ("update_call_generic", "update_call_stub", "update_def_post", "update_call", "update_return_callee"):
            fn = F.fn(name, mod=CTX)
            sy = S.Sym(F)
            env = {}
            sy.term(fn["body"], env)
            for node, conds in T.paths_to(fn["body"], lambda x: x.get("k") == "Adt" and x["adt"].endswith("option::Option") and x["v"] == "None"):
                # only Nones that are (part of) the function result under a positive taint test
                pos = False
                for cd in conds:
                    c = None
                    if cd[0] == "if":
                        c = sy.ev(cd[1], env)
                        pol = cd[2]
                    if c is not None and pol and (is_call(c, ("is_tainted",)) or (is_call(c) and c[1].startswith("check_") and c[1].endswith("_for_taint"))):
                        pos = True
                if not pos:
                    continue
                n += 1
                # a warning on the same path: a generate_cwe_warning call in the same branch body
                branch = None
                for cd in reversed(conds):
                    if cd[0] == "if" and cd[2]:
                        branch = cd
                        break
                warned = False
                for nd in T.walk(fn["body"]):
                    if nd.get("k") == "If" and branch is not None and nd["c"] is branch[1]:
                        warned = any(T.is_call(x, "generate_cwe_warning") for x in T.walk(nd["th"]))
                    if nd.get("k") == "Match":
                        for arm in nd["arms"]:
                            if branch is not None and arm.get("g") is branch[1]:
                                warned = any(T.is_call(x, "generate_cwe_warning") for x in T.walk(arm["b"]))
                run.check("R7", "%s|stop-has-warning|%d" % (name, n), warned, "%s stops the propagation after a positive taint test without generating the warning" % name, F.loc(node))
        run.floor("stops after positive taint tests", n, 1)

    run.guarded("R7", r7)

    def r8():
        fn = F.fn("check_cwe", mod="checkers::cwe_476")
        sy = S.Sym(F)
        env = {}
        t = sy.term(fn["body"], env)
        site = F.loc(fn["body"])
        from .lib import bindsrc as B
        from .lib import iterctx as IC
        from .lib import sortprint as SP2
        roots = B.bodies(F, fn)
        sets = [x for x in T.walk_fn(F, fn) if T.is_call(x, "set_node_value")]
        key = "check_cwe|one-computation-per-source-call"
        msg = "a taint computation must be started for every ExternCallStub edge whose call target is a configured symbol, seeded at the node the call returns to"
        if len(sets) != 1:
            run.undecided("R8", key, "expected one set_node_value site, found %d" % len(sets), site)
        else:
            n = sets[0]
            srcs = B.sources(F, roots, n["a"][1])
            seeded = any(T.is_call(y, "target") for src, how in srcs for y in B.walk_with_closures(F, src))
            from_source = any(T.is_call(y, "source") for src, how in srcs for y in B.walk_with_closures(F, src))
            ctx = IC.contexts(F, fn, n)
            over_edges = any(T.is_call(y, ("edge_references", "edge_indices", "raw_edges")) for e_ in ctx for src, how in B.sources(F, roots, e_) for y in B.walk_with_closures(F, src))
            # the three conditions, wherever they are written (let-else chain, nested match, filter_map closure)
            pats = [q for b_ in [fn] + F.closures(fn) for pat, scrut, owner in SL.fn_patterns(F, b_, closures=False) for q in [pat]]
            stub = any(SL.variant_subpatterns(p_, "graph::Edge", "ExternCallStub") and list(SL.variant_subpatterns(p_, "graph::Edge", "ExternCallStub")) for p_ in pats)
            direct = any(list(SL.variant_subpatterns(p_, "jmp::Jmp", "Call")) for p_ in pats)
            tids = set()
            for b_ in [fn]:
                tids |= {bb[0] for bb in SL.slot_bindings(F, b_, "jmp::Jmp", "Call", "target")}
            member = any(T.is_call(y, ("get", "contains_key", "get_key_value")) and len(y.get("a", [])) == 2 and T.root_var_id(y["a"][1]) in tids for y in T.walk_fn(F, fn))
            missing = [w for w, ok_ in (("edges of the graph are enumerated", over_edges), ("Edge::ExternCallStub is required", stub), ("a direct call (Jmp::Call) is required", direct), ("the call target is looked up in the symbol map", member)) if not ok_]
            if from_source and not seeded:
                run.violated("R8", key, msg + " -- the computation is seeded at the SOURCE node of the edge", F.loc(n))
            elif not seeded:
                run.undecided("R8", key, "the seeded node is not traced to edge.target()", F.loc(n))
            elif missing:
                run.violated("R8", key, msg + " -- missing: %s" % missing, F.loc(n))
            else:
                run.holds("R8", key, "", F.loc(n))
        sm = [x for x in S.subterms(t) if is_call(x, "get_symbol_map")]
        run.check("R8", "check_cwe|configured-symbols", bool(sm) and any(isinstance(y, tuple) and y and y[0] == "field" and y[2] == "symbols" for y in S.subterms(sm[0])), "the sources are the symbols configured for this check", site)
        v_, why_, site_ = SP2.dedup_ordered(F, fn)
        if v_ == "undecided":
            run.undecided("R8", "check_cwe|dedup-by-source-address-ordered", why_, site)
        else:
            run.check("R8", "check_cwe|dedup-by-source-address-ordered", v_ == "holds", "warnings must be deduplicated per source address in an ordered map (one warning per source call, deterministic choice): %s" % why_, site)
        exits = [x for x in T.walk(fn["body"]) if x.get("k") in ("Break", "Return") and x.get("ds") != "ForLoop"]
        run.check("R8", "check_cwe|all-sources-visited", not exits, "the loop over the call edges must not stop early", site)

    run.guarded("R8", r8)
