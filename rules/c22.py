"""C22 Check selection runs exactly the requested checks.

 R1 registry: every `static CWE_MODULE: CweModule` is listed exactly once in get_modules(),
    names are pairwise distinct, `run` points into the module's own source file; the
    --module-versions branch lists the unfiltered registry and returns before any filter
 R2 selection formula: partial > LKM > default as an if/else-if chain; default removes
    exactly the module whose name is cwe_78::CWE_MODULE.name; LKM keeps exactly MODULES_LKM;
    nothing else mutates the module list before the run loop; the loop runs each remaining
    module once with config[module.name]
 R3 partial filter keeps a module iff its full name is listed (set semantics), panics on
    unknown non-empty names
"""
from .lib import sym as S
from .lib import thir as T
from .lib.sym import fmt


def is_call(t, name=None):
    return isinstance(t, tuple) and t and t[0] == "call" and (name is None or t[1] == name or (isinstance(name, (set, tuple, frozenset)) and t[1] in name))


def module_statics(F):
    """{static path: {name, version, run, file, mod}} for every static of type CweModule"""
    out = {}
    for f in F.fns:
        if not f["dk"].startswith("Static"):
            continue
        b = T.peel(f["body"])
        if b.get("k") != "Adt" or not b["adt"].endswith("CweModule"):
            continue
        sy = S.Sym(F)
        ent = {"file": F.file_of(f), "mod": f["mod"], "site": F.loc(f["body"])}
        for fld, e in b["fs"].items():
            t = sy.ev(e, {})
            if fld == "name":
                ent["name"] = t[1] if t[0] == "lit" else None
                ent["name_term"] = t
            elif fld == "version":
                ent["version"] = t
            elif fld == "run":
                ent["run"] = t[1] if t[0] == "fnref" else None
        out[f["path"]] = ent
    return out


def run(run):
    F = run.facts()
    C = run.facts("cwe_checker")
    run.explanation = (
        "Static analysis of the check registry and of the selection code in the command-line front end: all statics of type "
        "CweModule are enumerated from the compiler's item table and compared with the list built by get_modules(); the filter in "
        "run_with_ghidra is read as an if/else-if chain over its atoms and each branch's predicate is normalised (constants resolved "
        "to the registry's values); statement order (module listing before filtering, no mutation of the list between filter and run "
        "loop) is decided on the top-level statement sequence. Decides the selection formula, not which warnings a check emits.")
    run.rule("R1", "registry completeness/uniqueness; module-versions lists the unfiltered registry before any filtering")
    run.rule("R2", "selection formula partial > LKM > default; exact predicates; no other mutation; run loop")
    run.rule("R3", "partial filter: full-name equality, set semantics, panic on unknown names")

    statics = module_statics(F)
    run.floor("CweModule statics", len(statics), 19)

    def r1():
        g = F.fn("get_modules", mod="cwe_checker_lib") if F.find_fns(name="get_modules", mod="cwe_checker_lib") else F.fn("get_modules")
        t = S.Sym(F).term(g["body"])
        listed = [x[1] for x in S.subterms(t) if isinstance(x, tuple) and x and x[0] == "const" and x[1] in statics]
        # order of subterms is document order
        for p in sorted(statics):
            n = listed.count(p)
            run.check("R1", "registered-once|%s" % p, n == 1, "check module %s (name %s) is listed %d times in get_modules(); every check must be known exactly once" % (p, statics[p].get("name"), n), F.loc(g["body"]))
        names = {}
        for p, e in statics.items():
            names.setdefault(e.get("name"), []).append(p)
        for nme, ps in sorted(names.items(), key=lambda x: str(x[0])):
            run.check("R1", "name-unique|%s" % nme, nme is not None and len(ps) == 1, "module name %r is used by %s" % (nme, ps))
        for p, e in sorted(statics.items()):
            runfn = F.by_path.get(e.get("run") or "")
            same = runfn is not None and (F.file_of(runfn) == e["file"] or F.file_of(runfn).rsplit("/", 1)[0] == e["file"].rsplit("/", 1)[0] and e["file"].endswith("mod.rs"))
            run.check("R1", "run-points-home|%s" % p, bool(same), "CWE_MODULE %s has run = %s which is not defined in the module's own file %s" % (p, e.get("run"), e["file"]), e["site"])
        # module-versions branch
        m = C.fn("run_with_ghidra")
        sy = S.Sym(C)
        env = {}
        t = sy.term(m["body"], env)
        stmts = list(t[1]) + [t[2]] if t[0] == "seq" else [t]
        idx_versions = idx_mut = None
        for i, st in enumerate(stmts):
            if st[0] == "ite" and st[1][0] == "field" and st[1][2] == "module_versions" and idx_versions is None:
                idx_versions = i
                body = st[2]
                rets = [x for x in S.subterms(body) if isinstance(x, tuple) and x and x[0] == "return"]
                iters = [x for x in S.subterms(body) if is_call(x, ("iter", "into_iter")) and any(isinstance(y, tuple) and y and y[0] == "var" and y[1] == "modules" for y in S.subterms(x))]
                run.check("R1", "module-versions|lists-registry-and-returns", bool(rets) and bool(iters), "the --module-versions branch must iterate the module list and return", C.loc(m["body"]))
            if idx_mut is None and mutates_modules(st):
                idx_mut = i
        if idx_versions is None:
            run.violated("R1", "module-versions|before-filter", "no `if args.module_versions` branch found at the top level of run_with_ghidra", C.loc(m["body"]))
        else:
            run.check("R1", "module-versions|before-filter", idx_mut is None or idx_versions < idx_mut, "the module list is filtered before the --module-versions listing: the listing would not name every known check", C.loc(m["body"]))
        # modules is initialised from get_modules()
        init = [x for x in S.subterms(t) if isinstance(x, tuple) and x and x[0] == "letstmt" and x[1] == "modules"]
        run.check("R1", "modules-from-registry", bool(init) and is_call(init[0][2], "get_modules"), "the module list must be initialised from cwe_checker_lib::get_modules()", C.loc(m["body"]))

    def mutates_modules(st):
        for x in S.subterms(st):
            if is_call(x, ("retain", "filter_modules_for_partial_run", "push", "remove", "clear", "truncate", "drain", "pop", "insert", "extend", "append", "swap_remove", "dedup", "sort", "reverse", "retain_mut")) and x[2] and x[2][0][0] == "var" and x[2][0][1] == "modules":
                return True
            if isinstance(x, tuple) and x and x[0] == "assign" and x[1][0] == "var" and x[1][1] == "modules":
                return True
        return False

    run.guarded("R1", r1)

    def r2():
        m = C.fn("run_with_ghidra")
        sy = S.Sym(C)
        env = {}
        t = sy.term(m["body"], env)
        site = C.loc(m["body"])
        stmts = list(t[1]) + [t[2]] if t[0] == "seq" else [t]
        muts = [i for i, st in enumerate(stmts) if mutates_modules(st)]
        run.check("R2", "single-filter-statement", len(muts) == 1, "the module list must be filtered by exactly one statement (the partial/LKM/default chain); found %d mutating statements" % len(muts), site)
        if not muts:
            return
        chain = stmts[muts[0]]
        # chain: ite(let Some = args.partial, A, ite(is_lkm, B, D))
        ok_shape = chain[0] == "ite" and chain[1][0] == "let" and chain[1][1].startswith("Some") and chain[1][2][0] == "field" and chain[1][2][2] == "partial"
        if not ok_shape:
            # accept `if args.partial.is_some()` as well
            ok_shape = chain[0] == "ite" and is_call(chain[1], "is_some") and chain[1][2][0][0] == "field" and chain[1][2][0][2] == "partial"
        run.check("R2", "chain|partial-first", ok_shape, "the first decision of the filter must be `--partial given`; found %s" % fmt(chain[1] if chain[0] == "ite" else chain)[:160], site)
        if not ok_shape:
            return
        partial_b, rest = chain[2], S.value(chain[3])
        pcalls = [x for x in S.subterms(partial_b) if is_call(x, "filter_modules_for_partial_run")]
        good = len(pcalls) == 1 and pcalls[0][2][0][0] == "var" and pcalls[0][2][0][1] == "modules" and pcalls[0][2][1][0] == "field" and "partial" in fmt(pcalls[0][2][1])
        run.check("R2", "chain|partial-action", bool(good) and not any(is_call(x, "retain") for x in S.subterms(partial_b)), "with --partial the list must be filtered by filter_modules_for_partial_run(modules, <the --partial argument>) only", site)
        lkm_shape = rest[0] == "ite" and rest[1][0] == "field" and rest[1][2] == "is_lkm"
        run.check("R2", "chain|lkm-second", lkm_shape, "the second decision must be `input is a kernel module` (runtime_memory_image.is_lkm); found %s" % fmt(rest[1] if rest[0] == "ite" else rest)[:160], site)
        if not lkm_shape:
            return
        lkm_b, def_b = rest[2], rest[3]
        # closures
        def retain_closure(b):
            cs = [x for x in S.subterms(b) if is_call(x, "retain") and x[2][0][0] == "var" and x[2][0][1] == "modules"]
            if len(cs) != 1 or cs[0][2][1][0] != "closure":
                return None
            c = C.closure_by_path(cs[0][2][1][1])
            return S.value(S.Sym(C).term(c["body"]))
        lk = retain_closure(lkm_b)
        if lk is None:
            run.undecided("R2", "lkm-predicate", "LKM branch is not a single modules.retain(closure)", site)
        else:
            good = is_call(lk, "contains") and len(lk[2]) == 2 and lk[2][0][0] == "const" and lk[2][0][1].endswith("MODULES_LKM") and lk[2][1][0] == "field" and lk[2][1][2] == "name"
            run.check("R2", "lkm-predicate", good, "kernel-module runs must keep exactly the modules whose name is in MODULES_LKM; predicate is %s" % fmt(lk), site)
        df = retain_closure(def_b)
        cwe78 = [e for p, e in statics.items() if p.endswith("cwe_78::CWE_MODULE")]
        if not cwe78:
            raise T.AnchorMissing("cwe_78::CWE_MODULE not found")
        name78 = cwe78[0]["name"]
        if df is None:
            run.undecided("R2", "default-predicate", "default branch is not a single modules.retain(closure)", site)
        else:
            pol = True
            d = df
            while d[0] == "not":
                d, pol = d[1], not pol
            good = None
            if is_call(d, ("ne", "eq")) and len(d[2]) == 2:
                a, b = d[2]
                fld = a if a[0] == "field" else b
                other = b if fld is a else a
                val = other[1] if other[0] == "lit" else (name78 if (other[0] == "field" and other[2] == "name" and other[1][0] == "const" and other[1][1].endswith("cwe_78::CWE_MODULE")) else None)
                keep_if_different = (d[1] == "ne") == pol
                if fld[0] == "field" and fld[2] == "name" and val is not None:
                    good = keep_if_different and val == name78
                    run.check("R2", "default-predicate", good, "a default run must remove exactly the OS-command-injection check (%s); the predicate %s removes %s" % (name78, fmt(df), ("module %r" % val) if keep_if_different else ("everything except %r" % val)), site)
            if good is None:
                run.undecided("R2", "default-predicate", "predicate outside the vocabulary: %s" % fmt(df), site)
        # MODULES_LKM names
        lkm = [f for f in F.fns if f["name"] == "MODULES_LKM"]
        if lkm:
            lt = S.Sym(F).term(lkm[0]["body"])
            names = [x[1] for x in S.subterms(lt) if isinstance(x, tuple) and x and x[0] == "lit"]
            known = {e["name"] for e in statics.values()}
            extra = [n for n in names if n not in known]
            if extra:
                run.note("MODULES_LKM names %s which are not registered modules (no effect on selection)" % extra)
            # `MODULES_LKM.contains(&module.name)`: list membership for an array / slice, SUBSTRING search for a string
            lty = F.tyi(lkm[0]["ret"]) if isinstance(lkm[0].get("ret"), int) else (F.ty(lkm[0]["body"]) or "")
            is_string = lty.replace("'static ", "").replace("&", "").strip() in ("str", "std::string::String") or (len(names) == 1 and isinstance(names[0], str) and "," in names[0])
            if is_string and names and isinstance(names[0], str):
                text = names[0]
                intended = {x.strip() for x in text.split(",") if x.strip()}
                selected = {n for n in known if n in text}
                wrong = sorted(selected - intended)
                run.check("R2", "lkm-membership-is-exact", not wrong, "MODULES_LKM is a string, so `MODULES_LKM.contains(&module.name)` is a substring search: it also selects %s (a prefix/substring of a listed name), which is not in the kernel-module subset %s" % (wrong, sorted(intended)), F.loc(lkm[0]["body"]))
            else:
                run.holds("R2", "lkm-membership-is-exact", "array membership", F.loc(lkm[0]["body"]))
                run.check("R2", "lkm-subset-nonempty", any(n in known for n in names), "MODULES_LKM selects no registered module", F.loc(lkm[0]["body"]))
        # the run loop
        loops = [(i, st) for i, st in enumerate(stmts) if st[0] == "for" and any(isinstance(x, tuple) and x and x[0] == "callind" for x in S.subterms(st))]
        if len(loops) != 1:
            run.undecided("R2", "run-loop", "expected exactly one loop invoking module.run; found %d" % len(loops), site)
        else:
            i, lp = loops[0]
            run.check("R2", "run-loop|after-filter", i > muts[0], "modules are run before the selection is applied", site)
            it = lp[2]
            run.check("R2", "run-loop|iterates-modules", any(isinstance(x, tuple) and x and x[0] == "var" and x[1] == "modules" for x in S.subterms(it)) and not any(is_call(x, ("filter", "take", "skip", "step_by", "rev", "take_while", "skip_while")) for x in S.subterms(it)), "the run loop must iterate the whole filtered module list; iterable: %s" % fmt(it), site)
            ci = [x for x in S.subterms(lp) if isinstance(x, tuple) and x and x[0] == "callind"]
            c = ci[0]
            good = c[1][0] == "field" and c[1][2] == "run" and len(c[2]) == 2 and c[2][1][0] in ("call", "index")
            idx = c[2][1]
            key_ok = False
            if is_call(idx, "index") and len(idx[2]) == 2:
                k = idx[2][1]
                key_ok = k[0] == "field" and k[2] == "name" and k[1] == c[1][1]
            run.check("R2", "run-loop|runs-module-with-its-config", bool(good and key_ok), "each selected module must be run as (module.run)(&analysis_results, &config[&module.name]); found %s" % fmt(("callind",) + c[1:])[:200], site)
            exits = [x for x in S.subterms(lp) if isinstance(x, tuple) and x and x[0] in ("return",)] + [x for x in S.subterms(lp[3]) if isinstance(x, tuple) and x == ("continue",)]
            run.check("R2", "run-loop|no-early-exit", not exits, "the run loop must not skip or stop early", site)

    run.guarded("R2", r2)

    def r3():
        f = C.fn("filter_modules_for_partial_run")
        sy = S.Sym(C)
        env = {}
        t = sy.term(f["body"], env)
        site = C.loc(f["body"])
        # set of names
        names_let = [x for x in S.subterms(t) if is_call(x, "split")]
        run.check("R3", "splits-on-comma", any(("lit", ",") in x[2] for x in names_let), "the --partial argument must be split on ','", site)
        # every comparison of a module's name: equality on the full name or membership in a collection of names
        finds = []
        for c in C.closures(f):
            ct = S.value(S.Sym(C).term(c["body"]))
            for x in S.subterms(ct):
                if is_call(x, ("eq", "ne", "starts_with", "contains", "ends_with", "eq_ignore_ascii_case", "find", "matches", "strip_prefix")) and any(isinstance(y, tuple) and y and y[0] == "field" and y[2] == "name" for a in x[2] for y in S.subterms(a)):
                    finds.append((x, c))
        if not finds:
            run.undecided("R3", "name-equality", "no comparison of module names found", site)
        for i, (ct, c) in enumerate(finds):
            if is_call(ct, ("eq", "ne")):
                good = True
            elif is_call(ct, "contains"):
                # membership in a set/slice of names is fine; substring search in a string is not
                good = "str" not in ct[3].split("::")[-2] and ("HashSet" in ct[3] or "BTreeSet" in ct[3] or "[T]" in ct[3] or "Vec" in ct[3] or "slice" in ct[3])
            else:
                good = False
            run.check("R3", "name-equality|%d" % i, good, "a listed name must select the module with exactly that name; the comparison `%s` (%s) matches by %s" % (fmt(ct), ct[3], "substring/prefix" if not good else "equality"), C.loc(c["body"]))
        # unknown names are rejected
        all_terms = [t] + [S.Sym(C).term(c["body"]) for c in C.closures(f)]
        pan = any(is_call(x, ("panic_fmt", "panic", "panic_display", "begin_panic", "panic_explicit")) for tt in all_terms for x in S.subterms(tt))
        run.check("R3", "unknown-name-panics", pan, "an unknown non-empty module name must be rejected with a panic; no panic is left in filter_modules_for_partial_run", site)
        empties = any(is_call(x, "is_empty") for tt in all_terms for x in S.subterms(tt))
        run.check("R3", "empty-name-ignored", empties, "an empty list entry (e.g. a trailing comma) must be ignored rather than rejected", site)
        # the module list is actually replaced / filtered
        assigns = [x for x in S.subterms(t) if isinstance(x, tuple) and x and x[0] == "assign" and any(isinstance(y, tuple) and y and y[0] == "var" and y[1] == "modules" for y in S.subterms(x[1]))]
        retains = [x for x in S.subterms(t) if is_call(x, ("retain", "retain_mut")) and x[2][0][0] == "var" and x[2][0][1] == "modules"]
        run.check("R3", "replaces-module-list", bool(assigns) or bool(retains), "the module list must be replaced by / filtered down to the listed modules", site)

    run.guarded("R3", r3)
