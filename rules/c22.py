"""C22 Check selection runs exactly the requested checks.

 R1 registry: every `static CWE_MODULE: CweModule` is listed exactly once in get_modules(),
    names are pairwise distinct, `run` points into the module's own source file; the
    --module-versions branch lists the unfiltered registry and returns before any filter
 R2 selection formula: partial > LKM > default as an if/else-if chain; default removes
    exactly the module whose name is cwe_78::CWE_MODULE.name; LKM keeps exactly MODULES_LKM;
    nothing else mutates the module list before the run loop; the loop runs each remaining
    module once with config[module.name]
 R3 partial filter keeps a module iff its full name is listed (set semantics), panics on
    unknown non-empty names
How: R2 by three selection scenarios (--partial given / kernel module / default), the retain predicates evaluated over the
registered names (lib/strpred) and compared as sets.
"""
from .lib import sym as S
from .lib import thir as T
from .lib.sym import fmt


def is_call(t, name=None):
    return isinstance(t, tuple) and t and t[0] == "call" and (name is None or t[1] == name or (isinstance(name, (set, tuple, frozenset)) and t[1] in name))


def module_statics(F):
    """{static path: {name, version, run, file, mod}} for every static of type CweModule"""
    out = {}
    for f in F.fns:
        if not f["dk"].startswith("Static"):
            continue
        b = T.peel(f["body"])
        if b.get("k") != "Adt" or not b["adt"].endswith("CweModule"):
            continue
        sy = S.Sym(F)
        ent = {"file": F.file_of(f), "mod": f["mod"], "site": F.loc(f["body"])}
        for fld, e in b["fs"].items():
            t = sy.ev(e, {})
            if fld == "name":
                ent["name"] = t[1] if t[0] == "lit" else None
                ent["name_term"] = t
            elif fld == "version":
                ent["version"] = t
            elif fld == "run":
                ent["run"] = t[1] if t[0] == "fnref" else None
        out[f["path"]] = ent
    return out


def run(run):
    F = run.facts()
    C = run.facts("cwe_checker")
    run.explanation = (
        "Static analysis of the check registry and of the selection code in the command-line front end: all statics of type "
        "CweModule are enumerated from the compiler's item table and compared with the list built by get_modules(); the filter in "
        "run_with_ghidra is read as an if/else-if chain over its atoms and each branch's predicate is normalised (constants resolved "
        "to the registry's values); statement order (module listing before filtering, no mutation of the list between filter and run "
        "loop) is decided on the top-level statement sequence. Decides the selection formula, not which warnings a check emits.")
    run.rule("R1", "registry completeness/uniqueness; module-versions lists the unfiltered registry before any filtering")
    run.rule("R2", "selection formula partial > LKM > default; exact predicates; no other mutation; run loop")
    run.rule("R3", "partial filter: full-name equality, set semantics, panic on unknown names")

    statics = module_statics(F)
    run.floor("CweModule statics", len(statics), 19)

    def r1():
        g = F.fn("get_modules", mod="cwe_checker_lib") if F.find_fns(name="get_modules", mod="cwe_checker_lib") else F.fn("get_modules")
        t = S.Sym(F).term(g["body"])

        def module_refs(term, depth=0):
            """references to check-module statics in term, looking through statics / consts that hold the list"""
            out = []
            for x in S.subterms(term):
                if isinstance(x, tuple) and x and x[0] == "const":
                    if x[1] in statics:
                        out.append(x[1])
                    elif depth < 3:
                        holder = [f_ for f_ in F.fns if f_["dk"].startswith(("Static", "Const")) and (f_["path"] == x[1] or x[1].endswith("::" + f_["path"]) or f_["path"].endswith("::" + x[1]))]
                        if holder:
                            out.extend(module_refs(S.Sym(F).term(holder[0]["body"]), depth + 1))
            return out
        listed = module_refs(t)
        # order of subterms is document order
        for p in sorted(statics):
            n = listed.count(p)
            run.check("R1", "registered-once|%s" % p, n == 1, "check module %s (name %s) is listed %d times in get_modules(); every check must be known exactly once" % (p, statics[p].get("name"), n), F.loc(g["body"]))
        names = {}
        for p, e in statics.items():
            names.setdefault(e.get("name"), []).append(p)
        for nme, ps in sorted(names.items(), key=lambda x: str(x[0])):
            run.check("R1", "name-unique|%s" % nme, nme is not None and len(ps) == 1, "module name %r is used by %s" % (nme, ps))
        for p, e in sorted(statics.items()):
            runfn = F.by_path.get(e.get("run") or "")
            same = runfn is not None and (F.file_of(runfn) == e["file"] or F.file_of(runfn).rsplit("/", 1)[0] == e["file"].rsplit("/", 1)[0] and e["file"].endswith("mod.rs"))
            run.check("R1", "run-points-home|%s" % p, bool(same), "CWE_MODULE %s has run = %s which is not defined in the module's own file %s" % (p, e.get("run"), e["file"]), e["site"])
        # module-versions branch
        m = C.fn("run_with_ghidra")
        sy = S.Sym(C)
        env = {}
        t = sy.term(m["body"], env)
        stmts = list(t[1]) + [t[2]] if t[0] == "seq" else [t]
        idx_versions = idx_mut = None
        for i, st in enumerate(stmts):
            if st[0] == "ite" and st[1][0] == "field" and st[1][2] == "module_versions" and idx_versions is None:
                idx_versions = i
                body = st[2]
                rets = [x for x in S.subterms(body) if isinstance(x, tuple) and x and x[0] == "return"]
                iters = [x for x in S.subterms(body) if is_call(x, ("iter", "into_iter")) and any(isinstance(y, tuple) and y and y[0] == "var" and y[1] == "modules" for y in S.subterms(x))]
                # or the listing lives in a helper that is handed the module list and iterates it
                handed = [x for x in S.subterms(body) if is_call(x) and x[3] in C.by_path and any(isinstance(y, tuple) and y and y[0] == "var" and y[1] == "modules" for a in x[2] for y in S.subterms(a))]
                helper_iterates = any(T.for_loops(C.by_path[x[3]]["body"]) or any(T.is_call(y, ("for_each", "iter", "into_iter")) for y in T.walk_fn(C, C.by_path[x[3]])) for x in handed)
                if rets and not iters and handed and not helper_iterates:
                    run.undecided("R1", "module-versions|lists-registry-and-returns", "the listing is delegated to a helper whose iteration is not recognised", C.loc(m["body"]))
                else:
                    run.check("R1", "module-versions|lists-registry-and-returns", bool(rets) and (bool(iters) or helper_iterates), "the --module-versions branch must iterate the module list and return", C.loc(m["body"]))
            if idx_mut is None and mutates_modules(st):
                idx_mut = i
        if idx_versions is None:
            run.violated("R1", "module-versions|before-filter", "no `if args.module_versions` branch found at the top level of run_with_ghidra", C.loc(m["body"]))
        else:
            run.check("R1", "module-versions|before-filter", idx_mut is None or idx_versions < idx_mut, "the module list is filtered before the --module-versions listing: the listing would not name every known check", C.loc(m["body"]))
        # modules is initialised from get_modules()
        init = [x for x in S.subterms(t) if isinstance(x, tuple) and x and x[0] == "letstmt" and x[1] == "modules"]
        run.check("R1", "modules-from-registry", bool(init) and is_call(init[0][2], "get_modules"), "the module list must be initialised from cwe_checker_lib::get_modules()", C.loc(m["body"]))

    def mutates_modules(st):
        for x in S.subterms(st):
            if is_call(x, ("retain", "filter_modules_for_partial_run", "push", "remove", "clear", "truncate", "drain", "pop", "insert", "extend", "append", "swap_remove", "dedup", "sort", "reverse", "retain_mut")) and x[2] and x[2][0][0] == "var" and x[2][0][1] == "modules":
                return True
            if isinstance(x, tuple) and x and x[0] == "assign" and x[1][0] == "var" and x[1][1] == "modules":
                return True
        return False

    run.guarded("R1", r1)

    MUTATORS = ("retain", "retain_mut", "filter_modules_for_partial_run", "push", "remove", "clear", "truncate", "drain", "pop", "insert", "extend", "append", "swap_remove", "split_off", "resize")

    def r2():
        from .lib import peval as PE
        from .lib import strpred as SP
        m = C.fn("run_with_ghidra")
        body = m["body"]
        site = C.loc(body)
        # the local variable holding the module list: initialised from get_modules()
        mod_ids = {s_["p"]["id"] for s_ in T.walk(body) if s_.get("k") == "LetStmt" and "i" in s_ and s_["p"].get("k") == "Bind" and any(T.is_call(x, "get_modules") for x in T.walk(s_["i"]))}
        if not mod_ids:
            raise T.AnchorMissing("run_with_ghidra: no `let modules = get_modules()`")

        def on_modules(e):
            if T.root_var_id(e) in mod_ids:
                return True
            # the module list handed to a helper: a Vec<&CweModule> parameter
            ty = C.ty(T.peel(e)) or C.ty(e) or ""
            return "CweModule" in ty and "Vec" in ty and T.root_var_id(e) is not None

        def strip(e):
            e = T.peel(e)
            while e.get("k") == "Call" and e.get("n") in ("as_ref", "as_deref", "clone", "as_mut", "deref", "borrow", "as_str", "unwrap", "expect") and e.get("a"):
                e = T.peel(e["a"][0])
            return e

        def is_partial(e):
            e = strip(e)
            return e.get("k") == "Field" and e.get("fn") == "partial"

        def is_lkm_flag(e):
            e = T.peel(e)
            return e.get("k") == "Field" and e.get("fn") == "is_lkm"

        partial_fn = C.fn("filter_modules_for_partial_run")
        inside_partial = {id(x) for x in T.walk_fn(C, partial_fn)}

        def actions(nodes):
            out = []
            for x in nodes:
                if id(x) in inside_partial:
                    continue        # what filter_modules_for_partial_run does to the list is R3's subject
                if x.get("k") == "Call" and x.get("n") in MUTATORS and x.get("a") and on_modules(x["a"][0]):
                    out.append(x)
                elif x.get("k") in ("Assign", "AssignOp") and on_modules(x["l"]):
                    out.append(x)
            return out

        arg_nodes = {}

        def is_partial_or_param(e):
            """the --partial argument itself, or a helper parameter that is handed the --partial argument"""
            if is_partial(e):
                return True
            v_ = T.var_id(strip(e))
            return v_ is not None and any(k_[1] == v_ and is_partial(a_) for k_, a_ in arg_nodes.items())

        def scenario(partial, lkm):
            hits = {"partial": 0, "lkm": 0}

            def assume(n):
                k = n.get("k")
                if k == "Call" and n.get("n") in ("is_some", "is_none") and n.get("a") and is_partial(n["a"][0]):
                    hits["partial"] += 1
                    return ("bool", partial == (n["n"] == "is_some"))
                if (k == "Field" or k == "Call") and is_partial(n) and (C.ty(n) or "").replace("&", "").strip().startswith(("std::option::Option", "Option", "core::option::Option")):
                    hits["partial"] += 1
                    return ("enum", "Some" if partial else "None")
                if k == "Field" and is_lkm_flag(n):
                    hits["lkm"] += 1
                    return ("bool", lkm)
                return None
            spec = PE.Spec(C, assume=assume, follow_calls=True)
            nodes = spec.reach(body, {})
            arg_nodes.update(spec.arg_nodes)
            return nodes, hits

        known = sorted(e["name"] for e in statics.values() if e.get("name"))
        cwe78 = [e for p_, e in statics.items() if p_.endswith("cwe_78::CWE_MODULE")]
        if not cwe78:
            raise T.AnchorMissing("cwe_78::CWE_MODULE not found")
        name78 = cwe78[0]["name"]
        lkm = [f for f in F.fns if f["name"] == "MODULES_LKM"]
        if not lkm:
            raise T.AnchorMissing("MODULES_LKM not found")
        sp = SP.StrPred([C, F])
        lkm_val = sp.ev(lkm[0]["body"], {})
        if isinstance(lkm_val, tuple):
            intended = set(lkm_val[1])
        elif isinstance(lkm_val, str):
            intended = {x.strip() for x in lkm_val.split(",") if x.strip()}
        else:
            intended = None

        def keep_set(call):
            """names of registered modules kept by `modules.retain(closure)`; None if the predicate is outside the vocabulary"""
            if call.get("n") not in ("retain", "retain_mut") or len(call["a"]) != 2:
                return None
            cl = T.peel(call["a"][1])
            if cl.get("k") != "Closure":
                return None
            c = C.by_path.get(cl["d"])
            bp = SP.closure_param(c) if c is not None else None
            if bp is None:
                return None
            kept = set()
            env0 = {}
            for x in T.walk(body):
                if x.get("k") == "LetStmt" and "i" in x and x["p"].get("k") == "Bind":
                    v = sp.ev(x["i"], env0)
                    if v is not None:
                        env0[x["p"]["id"]] = v
            for nme in known:
                env1 = dict(env0)
                env1[bp["id"]] = ("struct", {"name": nme})
                r = sp.ev(c["body"], env1)
                if r is None:
                    return None
                if r:
                    kept.add(nme)
            return kept

        run_calls_all = [x for x in T.walk_deep(C, body, 1) if x.get("k") == "Call" and "f" not in x and T.peel(x.get("fe", {})).get("k") == "Field" and T.peel(x["fe"]).get("fn") == "run"]

        def before_run(nodes, act):
            ids = [id(x) for x in nodes]
            rc = [ids.index(id(x)) for x in run_calls_all if id(x) in ids]
            # a run call inside a for_each closure is not in `nodes`: then the statement holding the closure is what counts
            if not rc:
                rc = [i for i, x in enumerate(nodes) if x.get("k") == "Closure" and any(id(y) in {id(z) for z in run_calls_all} for y in T.walk(C.by_path[x["d"]]["body"]))] if True else []
            return bool(rc) and ids.index(id(act)) < min(rc)

        # --- scenario: --partial given (kernel module or not)
        for lk_ in (False, True):
            nodes, hits = scenario(True, lk_)
            key = "chain|partial-first" if not lk_ else "chain|partial-overrides-lkm"
            acts = actions(nodes)
            if not hits["partial"] and not acts:
                run.undecided("R2", key, "no test of args.partial found on the way to the module filter", site)
                continue
            good = len(acts) == 1 and acts[0].get("n") == "filter_modules_for_partial_run" and len(acts[0]["a"]) == 2
            run.check("R2", key, good, "with --partial given%s the module list must be filtered by filter_modules_for_partial_run(modules, <the --partial argument>) only; actions on the module list: %s" % (" (kernel module input)" if lk_ else "", [T.show(a, C)[:80] for a in acts]), site)
            if good:
                run.check("R2", key.replace("chain|", "order|"), before_run(nodes, acts[0]), "the selection must be applied before the modules are run", site)
        # the argument handed to the filter is the --partial value itself
        nodes, hits = scenario(True, False)
        acts = actions(nodes)
        if len(acts) == 1 and acts[0].get("n") == "filter_modules_for_partial_run":
            a1 = acts[0]["a"][1]
            vid = T.var_id(strip(a1))
            ok = is_partial_or_param(a1) or any(is_partial(x) for x in T.walk(a1))
            if not ok and vid is not None:
                # bound by `if let Some(x) = args.partial` / `match args.partial { Some(x) => .. }` / let
                for x in T.walk_deep(C, body, 2):
                    if x.get("k") in ("Let", "Match") and is_partial_or_param(x["e"]) and any(b.get("id") == vid for pp in ([x["p"]] if x.get("k") == "Let" else [a["p"] for a in x["arms"]]) for b in walk_pat(pp)):
                        ok = True
                    if x.get("k") == "LetStmt" and "i" in x and any(b.get("id") == vid for b in walk_pat(x["p"])) and any(is_partial(y) for y in T.walk(x["i"])):
                        ok = True
            run.check("R2", "chain|partial-action", ok, "filter_modules_for_partial_run must receive the --partial argument; it receives %s" % T.show(a1, C)[:100], site)
        # --- scenario: no --partial, kernel module
        nodes, hits = scenario(False, True)
        acts = actions(nodes)
        if (not hits["lkm"] or not hits["partial"]) and not acts:
            run.undecided("R2", "chain|lkm-second", "no test of is_lkm found on the way to the module filter", site)
        else:
            run.check("R2", "chain|lkm-second", len(acts) == 1 and acts[0].get("n") in ("retain", "retain_mut"), "for a kernel module without --partial exactly one retain must filter the module list; actions: %s" % [T.show(a, C)[:80] for a in acts], site)
            if len(acts) == 1:
                ks = keep_set(acts[0])
                if ks is None or intended is None:
                    run.undecided("R2", "lkm-predicate", "predicate outside the vocabulary: %s" % T.show(acts[0], C)[:200], site)
                else:
                    want = intended & set(known)
                    run.check("R2", "lkm-predicate", ks == want, "kernel-module runs must keep exactly the registered modules listed in MODULES_LKM %s; the predicate keeps %s (wrongly kept: %s, wrongly dropped: %s)" % (sorted(want), sorted(ks), sorted(ks - want), sorted(want - ks)), site)
                run.check("R2", "order|lkm", before_run(nodes, acts[0]), "the selection must be applied before the modules are run", site)
        # --- scenario: no --partial, user-space binary
        nodes, hits = scenario(False, False)
        acts = actions(nodes)
        if (not hits["lkm"] or not hits["partial"]) and not acts:
            run.undecided("R2", "chain|default-last", "no test of is_lkm found on the way to the module filter", site)
        else:
            run.check("R2", "chain|default-last", len(acts) == 1 and acts[0].get("n") in ("retain", "retain_mut"), "for a default run exactly one retain must filter the module list; actions: %s" % [T.show(a, C)[:80] for a in acts], site)
            if len(acts) == 1:
                ks = keep_set(acts[0])
                if ks is None:
                    run.undecided("R2", "default-predicate", "predicate outside the vocabulary: %s" % T.show(acts[0], C)[:200], site)
                else:
                    want = set(known) - {name78}
                    run.check("R2", "default-predicate", ks == want, "a default run must remove exactly the OS-command-injection check (%s); the predicate wrongly keeps %s and wrongly drops %s" % (name78, sorted(ks - want), sorted(want - ks)), site)
                run.check("R2", "order|default", before_run(nodes, acts[0]), "the selection must be applied before the modules are run", site)
        # --- MODULES_LKM
        lty = F.tyi(lkm[0]["ret"]) if isinstance(lkm[0].get("ret"), int) else (F.ty(lkm[0]["body"]) or "")
        if isinstance(lkm_val, str):
            selected = {n for n in known if n in lkm_val}
            wrong = sorted(selected - intended)
            run.check("R2", "lkm-membership-is-exact", not wrong, "MODULES_LKM is a string, so `MODULES_LKM.contains(&module.name)` is a substring search: it also selects %s (a prefix/substring of a listed name), which is not in the kernel-module subset %s" % (wrong, sorted(intended)), F.loc(lkm[0]["body"]))
        elif intended is not None:
            extra = sorted(intended - set(known))
            if extra:
                run.note("MODULES_LKM names %s which are not registered modules (no effect on selection)" % extra)
            run.holds("R2", "lkm-membership-is-exact", "array membership", F.loc(lkm[0]["body"]))
            run.check("R2", "lkm-subset-nonempty", bool(intended & set(known)), "MODULES_LKM selects no registered module", F.loc(lkm[0]["body"]))
        else:
            run.undecided("R2", "lkm-membership-is-exact", "MODULES_LKM is neither an array of string literals nor a string", F.loc(lkm[0]["body"]))
        # --- the run loop
        if len(run_calls_all) != 1:
            run.undecided("R2", "run-loop", "expected exactly one call site of module.run; found %d" % len(run_calls_all), site)
            return
        rc = run_calls_all[0]
        mod_var = T.root_var_id(rc["fe"])
        # the loop (for / for_each) that binds the module variable
        holder = None
        for (n_, pat, it, lb) in T.for_loops(body):
            if any(b.get("id") == mod_var for b in walk_pat(pat)) and any(x is rc for x in T.walk(lb)):
                holder = ("for", it, lb)
        if holder is None:
            for x in T.walk(body):
                if x.get("k") == "Call" and x.get("n") == "for_each" and len(x.get("a", [])) == 2 and T.peel(x["a"][1]).get("k") == "Closure":
                    c = C.by_path.get(T.peel(x["a"][1])["d"])
                    if c is not None and any(y is rc for y in T.walk(c["body"])):
                        holder = ("for_each", x["a"][0], c["body"])
        if holder is None:
            run.undecided("R2", "run-loop", "module.run is not called from a for loop / for_each over the module list", site)
            return
        kind, it, lb = holder
        restrict = [x for x in T.walk(it) if T.is_call(x, ("filter", "take", "skip", "step_by", "take_while", "skip_while", "filter_map", "nth", "last", "first", "find"))]
        run.check("R2", "run-loop|iterates-modules", any(on_modules(x) for x in T.walk(it) if x.get("k") in ("Var", "Upvar")) and not restrict, "the run loop must iterate the whole filtered module list; iterable: %s" % T.show(it, C)[:160], site)
        # second argument: config[<module>.name]
        def resolve(e, depth=0):
            e = T.peel(e)
            vid = T.var_id(e)
            if vid is not None and depth < 3:
                for x in T.walk(lb):
                    if x.get("k") == "LetStmt" and "i" in x and x["p"].get("k") == "Bind" and x["p"]["id"] == vid:
                        return resolve(x["i"], depth + 1)
            return e
        cfg = resolve(rc["a"][1]) if len(rc.get("a", [])) == 2 else None
        key_ok = False
        if cfg is not None and ((cfg.get("k") == "Call" and cfg.get("n") == "index" and len(cfg["a"]) == 2) or cfg.get("k") == "Index"):
            kx = T.peel(cfg["a"][1] if cfg.get("k") == "Call" else cfg["r"])
            while kx.get("k") == "Call" and kx.get("n") in ("as_ref", "as_str", "deref", "borrow", "clone", "to_string", "to_owned") and kx.get("a"):
                kx = T.peel(kx["a"][0])
            key_ok = kx.get("k") == "Field" and kx.get("fn") == "name" and T.root_var_id(kx) == mod_var
            cfg_root = T.show(cfg["a"][0] if cfg.get("k") == "Call" else cfg["l"], C)
            key_ok = key_ok and "config" in cfg_root
        run.check("R2", "run-loop|runs-module-with-its-config", bool(key_ok), "each selected module must be run as (module.run)(&analysis_results, &config[&module.name]); found %s" % T.show(rc, C)[:200], site)
        exits = [x for x in T.walk(lb) if x.get("k") in ("Return", "Continue", "Break") and x.get("ds") not in ("ForLoop", "WhileLoop")]
        # the desugared for loop itself contains a `break` for the None arm, which is outside lb
        run.check("R2", "run-loop|no-early-exit", not exits, "the run loop must not skip or stop early", site)

    def walk_pat(p):
        yield p
        for key in ("sub",):
            v = p.get(key)
            if isinstance(v, dict):
                yield from walk_pat(v)
            elif isinstance(v, list):
                for s_ in v:
                    yield from walk_pat(s_["p"] if "p" in s_ else s_)
        if "p" in p and isinstance(p["p"], dict):
            yield from walk_pat(p["p"])
        for q in p.get("ps", []):
            yield from walk_pat(q)

    run.guarded("R2", r2)

    def r3():
        f = C.fn("filter_modules_for_partial_run")
        sy = S.Sym(C)
        env = {}
        t = sy.term(f["body"], env)
        site = C.loc(f["body"])
        # set of names
        names_let = [x for x in S.subterms(t) if is_call(x, "split")]
        run.check("R3", "splits-on-comma", any(("lit", ",") in x[2] for x in names_let), "the --partial argument must be split on ','", site)
        # every comparison of a module's name: equality on the full name or membership in a collection of names
        finds = []
        for c in C.closures(f):
            ct = S.value(S.Sym(C).term(c["body"]))
            for x in S.subterms(ct):
                if is_call(x, ("eq", "ne", "starts_with", "contains", "ends_with", "eq_ignore_ascii_case", "find", "matches", "strip_prefix")) and any(isinstance(y, tuple) and y and y[0] == "field" and y[2] == "name" for a in x[2] for y in S.subterms(a)):
                    finds.append((x, c))
        if not finds:
            run.undecided("R3", "name-equality", "no comparison of module names found", site)
        for i, (ct, c) in enumerate(finds):
            if is_call(ct, ("eq", "ne")):
                good = True
            elif is_call(ct, "contains"):
                # membership in a set/slice of names is fine; substring search in a string is not
                good = "str" not in ct[3].split("::")[-2] and ("HashSet" in ct[3] or "BTreeSet" in ct[3] or "[T]" in ct[3] or "Vec" in ct[3] or "slice" in ct[3])
            else:
                good = False
            run.check("R3", "name-equality|%d" % i, good, "a listed name must select the module with exactly that name; the comparison `%s` (%s) matches by %s" % (fmt(ct), ct[3], "substring/prefix" if not good else "equality"), C.loc(c["body"]))
        # unknown names are rejected
        all_terms = [t] + [S.Sym(C).term(c["body"]) for c in C.closures(f)]
        pan = any(is_call(x, ("panic_fmt", "panic", "panic_display", "begin_panic", "panic_explicit")) for tt in all_terms for x in S.subterms(tt))
        run.check("R3", "unknown-name-panics", pan, "an unknown non-empty module name must be rejected with a panic; no panic is left in filter_modules_for_partial_run", site)
        empties = any(is_call(x, "is_empty") for tt in all_terms for x in S.subterms(tt)) or any(
            (q.get("k") == "Const" and q.get("v") == "") for b_ in [f] + C.closures(f) for pat, scrut, owner in __import__("rules.lib.slots", fromlist=["x"]).fn_patterns(C, b_, closures=False) for q in walk_pat(pat)) or any(
            x.get("k") == "Lit" and x.get("v") == "" and x.get("lt") == "str" for x in T.walk_fn(C, f))
        run.check("R3", "empty-name-ignored", empties, "an empty list entry (e.g. a trailing comma) must be ignored rather than rejected", site)
        # the module list is actually replaced / filtered
        assigns = [x for x in S.subterms(t) if isinstance(x, tuple) and x and x[0] == "assign" and any(isinstance(y, tuple) and y and y[0] == "var" and y[1] == "modules" for y in S.subterms(x[1]))]
        retains = [x for x in S.subterms(t) if is_call(x, ("retain", "retain_mut")) and x[2][0][0] == "var" and x[2][0][1] == "modules"]
        run.check("R3", "replaces-module-list", bool(assigns) or bool(retains), "the module list must be replaced by / filtered down to the listed modules", site)

    run.guarded("R3", r3)
