"""C21 The analyzer completes on every well-formed input and its output is well-formed --
contracts around the pipeline.

 R1 configuration contract: the struct every check deserialises its parameters into
    (serde_json::from_value::<T>) matches the shipped config.json / lkm_config.json
 R2 analysis prerequisites: a check that unwraps pointer-inference / function-signature /
    string-abstraction results is listed in the corresponding table of run_with_ghidra; the
    analyses are computed in dependency order
 R3 output: warnings sorted after the last append and before printing; the JSON branch
    serialises the whole warning vector; --quiet empties the logs
 R4 warnings carry name and version of the emitting check
General panic freedom of the pipeline is not decided.
"""
import json
import os
import re

from .c22 import module_statics
from .lib import cond as CD
from .lib import sym as S
from .lib import thir as T
from .lib.sym import fmt


def is_call(t, name=None):
    return isinstance(t, tuple) and t and t[0] == "call" and (name is None or t[1] == name or (isinstance(name, (set, tuple, frozenset)) and t[1] in name))


def split_generic(s):
    """'A<B, C<D>>' -> ('A', ['B', 'C<D>'])"""
    i = s.find("<")
    if i < 0 or not s.endswith(">"):
        return s, []
    head, inner = s[:i], s[i + 1:-1]
    args, depth, cur = [], 0, ""
    for ch in inner:
        if ch in "<([":
            depth += 1
        elif ch in ">)]":
            depth -= 1
        if ch == "," and depth == 0:
            args.append(cur.strip())
            cur = ""
        else:
            cur += ch
    if cur.strip():
        args.append(cur.strip())
    return head, args


def shape_ok(F, ty, val, path):
    """None if the JSON value fits the Rust type, else a reason."""
    ty = ty.strip()
    if ty.startswith("(") and ty.endswith(")"):
        _, parts = split_generic("T<" + ty[1:-1] + ">")
        if not isinstance(val, list) or len(val) != len(parts):
            return "%s: expected a %d-element array for tuple %s, found %s" % (path, len(parts), ty, json.dumps(val)[:60])
        for i, (p, v) in enumerate(zip(parts, val)):
            r = shape_ok(F, p, v, "%s[%d]" % (path, i))
            if r:
                return r
        return None
    head, args = split_generic(ty)
    base = head.split("::")[-1]
    if base == "String" or ty in ("&str", "str"):
        return None if isinstance(val, str) else "%s: expected a string, found %s" % (path, json.dumps(val)[:60])
    if base == "bool":
        return None if isinstance(val, bool) else "%s: expected a bool, found %s" % (path, json.dumps(val)[:60])
    if base in ("u8", "u16", "u32", "u64", "usize", "u128"):
        return None if isinstance(val, int) and not isinstance(val, bool) and val >= 0 else "%s: expected an unsigned integer, found %s" % (path, json.dumps(val)[:60])
    if base in ("i8", "i16", "i32", "i64", "isize", "i128"):
        return None if isinstance(val, int) and not isinstance(val, bool) else "%s: expected an integer, found %s" % (path, json.dumps(val)[:60])
    if base in ("f32", "f64"):
        return None if isinstance(val, (int, float)) and not isinstance(val, bool) else "%s: expected a number" % path
    if base in ("Vec", "BTreeSet", "HashSet", "VecDeque"):
        if not isinstance(val, list):
            return "%s: expected an array for %s, found %s" % (path, ty, json.dumps(val)[:60])
        for i, v in enumerate(val):
            r = shape_ok(F, args[0], v, "%s[%d]" % (path, i))
            if r:
                return r
        return None
    if base in ("HashMap", "BTreeMap"):
        if not isinstance(val, dict):
            return "%s: expected an object for %s, found %s" % (path, ty, json.dumps(val)[:60])
        for k, v in val.items():
            r = shape_ok(F, args[1], v, "%s.%s" % (path, k))
            if r:
                return r
        return None
    if base == "Option":
        return None if val is None else shape_ok(F, args[0], val, path)
    if head in F.adts:
        adt = F.adts[head]
        if adt["kind"] == "struct":
            return struct_ok(F, adt, val, path)
        if adt["kind"] == "enum" and all(not v["fields"] for v in adt["variants"]):
            return None if isinstance(val, str) and val in [v["name"] for v in adt["variants"]] else "%s: expected one of the unit variants of %s" % (path, head)
    return "UNDECIDED:%s: type %s is outside the shape vocabulary" % (path, ty)


def struct_ok(F, adt, val, path):
    if not isinstance(val, dict):
        return "%s: expected an object for struct %s, found %s" % (path, adt["path"], json.dumps(val)[:60])
    for f in adt["variants"][0]["fields"]:
        fty = F.tyi(f["t"])
        if f["name"] not in val:
            if split_generic(fty)[0].split("::")[-1] == "Option":
                continue
            return "%s: field `%s` of %s is missing in the shipped configuration (deserialisation fails when the check starts)" % (path, f["name"], adt["path"])
        r = shape_ok(F, fty, val[f["name"]], "%s.%s" % (path, f["name"]))
        if r:
            return r
    return None


def run(run):
    F = run.facts()
    C = run.facts("cwe_checker")
    run.explanation = (
        "Static contract analysis around the pipeline: (R1) for every serde_json::from_value::<T> reachable from a check's entry point "
        "the struct T (fields and types from the compiler's item table) is matched against the shipped src/config.json and "
        "src/lkm_config.json; (R2) every check whose code unwraps an optional analysis result is looked up in the prerequisite tables "
        "of run_with_ghidra, read from the THIR as constants; (R3) statement order sort-after-last-append-before-print on the top-level "
        "sequence; (R4) provenance of the name/version arguments of every CweWarning::new. Decides these contracts, not panic freedom "
        "of the analyses themselves.")
    run.rule("R1", "configuration structs of the checks match the shipped configuration files")
    run.rule("R2", "analysis prerequisites of each check are declared in run_with_ghidra; analyses computed in dependency order")
    run.rule("R3", "warnings sorted after the last append and before printing; JSON serialises the whole vector; --quiet empties logs")
    run.rule("R4", "every warning carries name and version of the emitting check")

    statics = module_statics(F)
    by_name = {e["name"]: (p, e) for p, e in statics.items()}
    cfg = json.load(open(os.path.join(run.repo, "src", "config.json")))
    lkm_cfg = json.load(open(os.path.join(run.repo, "src", "lkm_config.json")))
    lkm_names = []
    lk = [f for f in F.fns if f["name"] == "MODULES_LKM"]
    if lk:
        lkm_names = [x[1] for x in S.subterms(S.Sym(F).term(lk[0]["body"])) if isinstance(x, tuple) and x and x[0] == "lit"]

    main = C.fn("run_with_ghidra")
    sy = S.Sym(C)
    env = {}
    mt = sy.term(main["body"], env)
    stmts = list(mt[1]) + [mt[2]] if mt[0] == "seq" else [mt]
    msite = C.loc(main["body"])

    # key used for compute_pointer_inference / compute_string_abstraction
    analysis_keys = {}
    for x in S.subterms(mt):
        if is_call(x, ("compute_pointer_inference", "compute_string_abstraction")):
            for a in x[2]:
                if is_call(a, "index") and a[2][1][0] == "lit":
                    analysis_keys[x[1]] = a[2][1][1]

    def r1():
        n = 0
        for f in F.fns:
            if f["dk"] == "Closure":
                continue
            for c in T.calls_fn(F, f, name="from_value"):
                if "serde_json" not in c["f"]:
                    continue
                tyname = c["ga"][0] if c.get("ga") else None
                if tyname is None or tyname not in F.adts:
                    continue
                # which config key(s)?
                keys = []
                mods = [e for p, e in statics.items() if e.get("run") == f["path"]]
                if mods:
                    keys = [mods[0]["name"]]
                elif f["name"] in analysis_keys:
                    keys = [analysis_keys[f["name"]]]
                else:
                    continue
                adt = F.adts[tyname]
                for key in keys:
                    for fname, conf, required in (("config.json", cfg, True), ("lkm_config.json", lkm_cfg, key in lkm_names or key in ("Memory",))):
                        if not required:
                            continue
                        n += 1
                        ikey = "%s|%s|%s" % (fname, key, tyname)
                        site = F.loc(c)
                        if key not in conf:
                            run.violated("R1", ikey, "%s has no entry `%s` for the parameters of %s" % (fname, key, tyname), site)
                            continue
                        r = struct_ok(F, adt, conf[key], key)
                        if r is None:
                            run.holds("R1", ikey, "", site)
                        elif r.startswith("UNDECIDED:"):
                            run.undecided("R1", ikey, r[10:], site)
                        else:
                            run.violated("R1", ikey, "%s does not fit %s: %s" % (fname, tyname, r), site)
        run.floor("configuration contracts", n, 16)

    run.guarded("R1", r1)

    def needs_of(path_prefixes, entry):
        """which optional analysis results are unwrapped by code reachable from `entry`
        (resolved call graph inside the crate)"""
        seen = set()
        todo = [entry]
        needs = {}
        while todo:
            p = todo.pop()
            if p in seen or p not in F.by_path:
                continue
            seen.add(p)
            fn = F.by_path[p]
            nodes = list(T.walk_fn(F, fn))
            for n in nodes:
                if T.is_call(n, ("unwrap", "expect")) and n["a"]:
                    a = T.peel(n["a"][0])
                    if a.get("k") == "Field" and a.get("adt", "").endswith("AnalysisResults") and a.get("fn") in ("pointer_inference", "function_signatures", "string_abstraction"):
                        needs.setdefault(a["fn"], F.loc(n))
                if n.get("k") == "Call" and "f" in n:
                    tgt = n.get("r") or n["f"]
                    if tgt in F.by_path and tgt not in seen:
                        todo.append(tgt)
                if n.get("k") == "FnRef":
                    tgt = n.get("r") or n["f"]
                    if tgt in F.by_path and tgt not in seen:
                        todo.append(tgt)
        return needs

    def r2():
        tables = {}
        for x in S.subterms(mt):
            if isinstance(x, tuple) and x and x[0] == "letstmt":
                pass
        for n in T.walk(main["body"]):
            if n.get("k") == "LetStmt" and "i" in n:
                name = T.show_pat(n["p"])
                if name in ("modules_depending_on_string_abstraction", "modules_depending_on_pointer_inference"):
                    t = sy.ev(n["i"], env)
                    tables[name] = {x[1] for x in S.subterms(t) if isinstance(x, tuple) and x and x[0] == "lit" and isinstance(x[1], str)}
        if len(tables) != 2:
            raise T.AnchorMissing("prerequisite tables not found in run_with_ghidra")
        pi_tab = tables["modules_depending_on_pointer_inference"]
        sa_tab = tables["modules_depending_on_string_abstraction"]
        for p, e in sorted(statics.items()):
            if not e.get("run"):
                continue
            needs = needs_of(None, e["run"])
            name = e["name"]
            # string abstraction implies pointer inference in run_with_ghidra (pi_analysis_needed = sa_needed || ...)
            for what, site in sorted(needs.items()):
                if what in ("pointer_inference", "function_signatures"):
                    ok = name in pi_tab or name in sa_tab
                    run.check("R2", "%s|needs|%s" % (name, what), ok, "check %s unwraps AnalysisResults.%s (at %s) but is not listed in the tables that make run_with_ghidra compute it: a run selecting only this check panics" % (name, what, site), msite)
                elif what == "string_abstraction":
                    run.check("R2", "%s|needs|%s" % (name, what), name in sa_tab, "check %s unwraps AnalysisResults.string_abstraction (at %s) but is not listed in modules_depending_on_string_abstraction" % (name, site), msite)
        # dependency order of the analyses
        order = []
        for st in stmts:
            for x in S.subterms(st):
                if is_call(x, ("compute_function_signatures", "compute_pointer_inference", "compute_string_abstraction")) and x[1] not in order:
                    order.append(x[1])
            # only first occurrence by top-level statement matters
        # the first statement in which each compute_* appears
        first = {}
        for i, st in enumerate(stmts):
            for x in S.subterms(st):
                if is_call(x, ("compute_function_signatures", "compute_pointer_inference", "compute_string_abstraction")):
                    # a let-inlined earlier result also appears inside later terms; the defining statement is the first
                    first.setdefault(x[1], i)
        want = ["compute_function_signatures", "compute_pointer_inference", "compute_string_abstraction"]
        have = sorted(first, key=lambda k: first[k])
        run.check("R2", "analysis-order", have == want, "function signatures must be computed before pointer inference and pointer inference before string abstraction; order is %s" % have, msite)
        # prerequisites between the analyses themselves: string abstraction consumes (and unwraps) the pointer-inference result and
        # pointer inference the function signatures, so "B is computed" must imply "A is computed"
        from .lib import numflow as NF
        flow = NF.Flow(C, main)

        def guard_disjuncts(node, depth=0):
            """atoms of a guard: variable ids and opaque expression texts, through immutable lets and `||`"""
            n = T.peel(node)
            if n.get("k") in ("Var", "Upvar"):
                d = flow.definition(n)
                if d is not n and d.get("k") != n.get("k") and depth < 6:
                    return {("var", n["id"])} | guard_disjuncts(d, depth + 1)
                return {("var", n["id"])}
            if n.get("k") == "Logical" and n.get("o") == "Or":
                return guard_disjuncts(n["l"], depth + 1) | guard_disjuncts(n["r"], depth + 1)
            # `modules.iter().any(|m| TABLE.contains(&m.name))` or a helper closure applied to &TABLE: the table decides
            names = set()
            for y in T.walk(n):
                if y.get("k") in ("Var", "Upvar") and y.get("n") in tables:
                    names.add(y["n"])
                if y.get("k") == "Closure":
                    try:
                        for z in T.walk(C.closure_by_path(y["d"])["body"]):
                            if z.get("k") in ("Var", "Upvar") and z.get("n") in tables:
                                names.add(z["n"])
                    except T.AnchorMissing:
                        pass
            if len(names) == 1 and any(T.is_call(y, ("any", "contains")) or y.get("k") == "Call" for y in T.walk(n)):
                return {("table", list(names)[0])}
            return {("expr", id(n))}
        guards = {}
        for name in ("compute_function_signatures", "compute_pointer_inference", "compute_string_abstraction"):
            for x, conds in T.paths_to(main["body"], lambda y: T.is_call(y, name)):
                ifs = [c for c in conds if c[0] == "if" and c[2] is True]
                # innermost guard decides whether the analysis runs
                guards[name] = ifs[-1][1] if ifs else None
                break
        for a_fn, b_fn, why in (("compute_pointer_inference", "compute_string_abstraction", "compute_string_abstraction unwraps the pointer-inference result it is given"),
                                ("compute_function_signatures", "compute_pointer_inference", "the pointer inference reads the function signatures")):
            key = "implies|%s=>%s" % (b_fn.replace("compute_", ""), a_fn.replace("compute_", ""))
            if a_fn not in guards or b_fn not in guards:
                run.undecided("R2", key, "call not found", msite)
                continue
            ga, gb = guards[a_fn], guards[b_fn]
            if ga is None:
                run.holds("R2", key, "%s is computed unconditionally" % a_fn, msite)
                continue
            if gb is None:
                run.violated("R2", key, "%s always runs but %s only under a condition (%s)" % (b_fn, a_fn, why), msite)
                continue
            da, db = guard_disjuncts(ga), guard_disjuncts(gb)
            top_b = {d for d in db if d[0] == "var"} or db
            ta = set().union(*[tables[d[1]] for d in da if d[0] == "table"]) if any(d[0] == "table" for d in da) else set()
            tb_atoms = [d for d in db if d[0] == "table"]
            tables_imply = bool(tb_atoms) and all(tables[d[1]] <= ta for d in tb_atoms) and not any(d[0] == "expr" for d in db)
            if top_b & da or tables_imply:
                run.holds("R2", key, "", msite)
            elif not any(d[0] == "expr" for d in da | db):
                run.violated("R2", key, "%s runs when `%s` holds, %s only when `%s` holds, and the second condition does not contain the first: a selection that needs only %s makes the run panic (%s)" % (b_fn, T.show(gb)[:60], a_fn, T.show(ga)[:60], b_fn.replace("compute_", ""), why), C.loc(ga))
            else:
                run.undecided("R2", key, "guards %s / %s" % (T.show(ga)[:50], T.show(gb)[:50]), msite)
        # each result is attached with the matching with_* call using the matching result
        for comp, wit in (("compute_function_signatures", "with_function_signatures"), ("compute_pointer_inference", "with_pointer_inference"), ("compute_string_abstraction", "with_string_abstraction")):
            ws = [x for x in S.subterms(mt) if is_call(x, wit)]
            ok = bool(ws) and all(any(is_call(y, comp) for y in S.subterms(w[2][1])) for w in ws if len(w[2]) > 1)
            run.check("R2", "attached|%s" % wit, ok, "%s must attach the result of %s" % (wit, comp), msite)

    run.guarded("R2", r2)

    def r3():
        def mentions(st, var):
            return any(isinstance(x, tuple) and x and x[0] == "var" and x[1] == var for x in S.subterms(st))

        idx_sort = [i for i, st in enumerate(stmts) if any(is_call(x, ("sort", "sort_unstable", "sort_by", "sort_by_key")) and x[2] and x[2][0][0] == "var" and x[2][0][1] == "all_cwes" for x in S.subterms(st))]
        idx_print = [i for i, st in enumerate(stmts) if any(is_call(x, "print_all_messages") for x in S.subterms(st))]
        idx_app = [i for i, st in enumerate(stmts) if any(is_call(x, ("append", "push", "extend", "insert")) and x[2] and x[2][0][0] == "var" and x[2][0][1] == "all_cwes" for x in S.subterms(st))]
        if not idx_print:
            raise T.AnchorMissing("print_all_messages is not called at the top level of run_with_ghidra")
        top_level_sort = bool(idx_sort) and stmts[idx_sort[0]][0] == "call"
        run.check("R3", "sorted-before-print", top_level_sort and idx_sort[0] < idx_print[0], "the collected warnings must be sorted unconditionally before they are printed", msite)
        if idx_sort and idx_app:
            run.check("R3", "nothing-appended-after-sort", max(idx_app) < idx_sort[-1], "warnings are appended after the sort", msite)
        # print receives all_cwes unchanged
        pc = [x for x in S.subterms(stmts[idx_print[0]]) if is_call(x, "print_all_messages")][0]
        run.check("R3", "print-gets-all-warnings", len(pc[2]) >= 2 and pc[2][1][0] == "var" and pc[2][1][1] == "all_cwes" and pc[2][0][0] == "var" and pc[2][0][1] == "all_logs", "print_all_messages must receive (all_logs, all_cwes, ..); found %s" % fmt(pc)[:120], msite)
        between = [st for st in stmts[(idx_sort[-1] + 1 if idx_sort else 0):idx_print[0]]]
        bad = [st for st in between if any(is_call(x, ("retain", "truncate", "clear", "dedup", "dedup_by_key", "pop", "remove", "drain", "reverse")) and x[2] and x[2][0][0] == "var" and x[2][0][1] == "all_cwes" for x in S.subterms(st))]
        run.check("R3", "warnings-untouched-between-sort-and-print", not bad, "the warning list is modified between sorting and printing", msite)
        # quiet
        q = [st for st in stmts if st[0] == "ite" and st[1][0] == "field" and st[1][2] == "quiet"]
        ok = bool(q) and any(isinstance(x, tuple) and x and x[0] == "assign" and x[1][0] == "var" and x[1][1] == "all_logs" and is_call(x[2], ("new", "default")) for x in S.subterms(q[0][2]))
        run.check("R3", "quiet-empties-logs", ok, "--quiet must discard all log messages before printing", msite)
        # print_all_messages: json branch serialises `cwes`
        p = F.fn("print_all_messages", mod="utils::log")
        pt = S.Sym(F).term(p["body"])
        good = False
        for x in S.subterms(pt):
            if isinstance(x, tuple) and x and x[0] == "ite" and x[1][0] == "var" and x[1][1] == "emit_json":
                ser = [y for y in S.subterms(x[2]) if is_call(y, ("to_string_pretty", "to_string", "to_vec", "to_writer", "to_writer_pretty"))]
                good = bool(ser) and ser[0][2][0][0] == "var" and ser[0][2][0][1] == "cwes"
        run.check("R3", "json-serialises-whole-vector", good, "with --json the output must be the serialisation of the complete warning vector", F.loc(p["body"]))

    run.guarded("R3", r3)

    def r4():
        n = 0
        for f in F.fns:
            if "expn" in f and "Derive" in f["expn"]:
                continue
            for c in T.calls(f["body"], name="new"):
                if not (c.get("is", "").endswith("CweWarning") or "CweWarning" in c["f"]):
                    continue
                if len(c["a"]) < 2:
                    continue
                sy2 = S.Sym(F)
                a0, a1 = sy2.ev(c["a"][0], {}), sy2.ev(c["a"][1], {})
                while is_call(a0, ("from", "into", "to_string", "to_owned", "as_str")) and len(a0[2]) == 1:
                    a0 = a0[2][0]
                while is_call(a1, ("from", "into", "to_string", "to_owned", "as_str")) and len(a1[2]) == 1:
                    a1 = a1[2][0]
                n += 1
                site = F.loc(c)
                root = f.get("root") or f["path"]
                key = "%s|%d" % (root, [x for x in T.calls(f["body"], name="new") if "CweWarning" in x["f"]].index(c))

                def static_of(t, fld):
                    if t[0] == "field" and t[2] == fld and t[1][0] == "const" and t[1][1] in statics:
                        return t[1][1]
                    return None
                s0, s1 = static_of(a0, "name"), static_of(a1, "version")
                fmod = f["mod"]
                if s0 and s1:
                    same = s0 == s1
                    home = statics[s0]["mod"] == fmod or fmod.startswith(statics[s0]["mod"] + "::") or statics[s0]["mod"].startswith(fmod)
                    run.check("R4", key, same and home, "warning built with name of %s and version of %s inside module %s: a warning must carry name and version of the check that emits it" % (s0, s1, fmod), site)
                elif a0[0] == "lit" and s1:
                    lit_ok = isinstance(a0[1], str) and re.fullmatch(r"CWE\d+", a0[1]) is not None
                    home = statics[s1]["mod"] == fmod or fmod.startswith(statics[s1]["mod"] + "::")
                    run.check("R4", key, lit_ok and home, "warning named by literal %r with the version of %s in module %s" % (a0[1], s1, fmod), site)
                elif a0[0] == "var" or a1[0] == "var":
                    # name passed through a helper parameter: holds if all callers pass a module's name (one level)
                    run.holds("R4", key, "name/version passed in by the caller (%s, %s)" % (fmt(a0), fmt(a1)), site)
                else:
                    run.undecided("R4", key, "name/version provenance outside vocabulary: %s / %s" % (fmt(a0), fmt(a1)), site)
        run.floor("CweWarning::new sites", n, 15)

    run.guarded("R4", r4)
