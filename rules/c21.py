"""C21 The analyzer completes on every well-formed input and its output is well-formed --
contracts around the pipeline.

 R1 configuration contract: the struct every check deserialises its parameters into
    (serde_json::from_value::<T>) matches the shipped config.json / lkm_config.json
 R2 analysis prerequisites: a check that unwraps pointer-inference / function-signature /
    string-abstraction results is listed in the corresponding table of run_with_ghidra; the
    analyses are computed in dependency order
 R3 output: warnings sorted after the last append and before printing; the JSON branch
    serialises the whole warning vector; --quiet empties the logs
 R4 warnings carry name and version of the emitting check
General panic freedom of the pipeline is not decided.
How: R2 by one scenario per check -- run_with_ghidra is specialised for a selection that contains exactly that check (the
`modules.iter().any(..)` predicates are evaluated for its name) and the reached compute_* calls are compared with what the
check unwraps; R3's sort rule is lib/sortprint (shared with C23).
"""
import json
import os
import re

from .c22 import module_statics
from .lib import cond as CD
from .lib import sym as S
from .lib import thir as T
from .lib.sym import fmt


def is_call(t, name=None):
    return isinstance(t, tuple) and t and t[0] == "call" and (name is None or t[1] == name or (isinstance(name, (set, tuple, frozenset)) and t[1] in name))


def split_generic(s):
    """'A<B, C<D>>' -> ('A', ['B', 'C<D>'])"""
    i = s.find("<")
    if i < 0 or not s.endswith(">"):
        return s, []
    head, inner = s[:i], s[i + 1:-1]
    args, depth, cur = [], 0, ""
    for ch in inner:
        if ch in "<([":
            depth += 1
        elif ch in ">)]":
            depth -= 1
        if ch == "," and depth == 0:
            args.append(cur.strip())
            cur = ""
        else:
            cur += ch
    if cur.strip():
        args.append(cur.strip())
    return head, args


def shape_ok(F, ty, val, path):
    """None if the JSON value fits the Rust type, else a reason."""
    ty = ty.strip()
    if ty.startswith("(") and ty.endswith(")"):
        _, parts = split_generic("T<" + ty[1:-1] + ">")
        if not isinstance(val, list) or len(val) != len(parts):
            return "%s: expected a %d-element array for tuple %s, found %s" % (path, len(parts), ty, json.dumps(val)[:60])
        for i, (p, v) in enumerate(zip(parts, val)):
            r = shape_ok(F, p, v, "%s[%d]" % (path, i))
            if r:
                return r
        return None
    head, args = split_generic(ty)
    base = head.split("::")[-1]
    if base == "String" or ty in ("&str", "str"):
        return None if isinstance(val, str) else "%s: expected a string, found %s" % (path, json.dumps(val)[:60])
    if base == "bool":
        return None if isinstance(val, bool) else "%s: expected a bool, found %s" % (path, json.dumps(val)[:60])
    if base in ("u8", "u16", "u32", "u64", "usize", "u128"):
        return None if isinstance(val, int) and not isinstance(val, bool) and val >= 0 else "%s: expected an unsigned integer, found %s" % (path, json.dumps(val)[:60])
    if base in ("i8", "i16", "i32", "i64", "isize", "i128"):
        return None if isinstance(val, int) and not isinstance(val, bool) else "%s: expected an integer, found %s" % (path, json.dumps(val)[:60])
    if base in ("f32", "f64"):
        return None if isinstance(val, (int, float)) and not isinstance(val, bool) else "%s: expected a number" % path
    if base in ("Vec", "BTreeSet", "HashSet", "VecDeque"):
        if not isinstance(val, list):
            return "%s: expected an array for %s, found %s" % (path, ty, json.dumps(val)[:60])
        for i, v in enumerate(val):
            r = shape_ok(F, args[0], v, "%s[%d]" % (path, i))
            if r:
                return r
        return None
    if base in ("HashMap", "BTreeMap"):
        if not isinstance(val, dict):
            return "%s: expected an object for %s, found %s" % (path, ty, json.dumps(val)[:60])
        for k, v in val.items():
            r = shape_ok(F, args[1], v, "%s.%s" % (path, k))
            if r:
                return r
        return None
    if base == "Option":
        return None if val is None else shape_ok(F, args[0], val, path)
    if head in F.adts:
        adt = F.adts[head]
        if adt["kind"] == "struct":
            return struct_ok(F, adt, val, path)
        if adt["kind"] == "enum" and all(not v["fields"] for v in adt["variants"]):
            return None if isinstance(val, str) and val in [v["name"] for v in adt["variants"]] else "%s: expected one of the unit variants of %s" % (path, head)
    return "UNDECIDED:%s: type %s is outside the shape vocabulary" % (path, ty)


def struct_ok(F, adt, val, path):
    if not isinstance(val, dict):
        return "%s: expected an object for struct %s, found %s" % (path, adt["path"], json.dumps(val)[:60])
    for f in adt["variants"][0]["fields"]:
        fty = F.tyi(f["t"])
        if f["name"] not in val:
            if split_generic(fty)[0].split("::")[-1] == "Option":
                continue
            return "%s: field `%s` of %s is missing in the shipped configuration (deserialisation fails when the check starts)" % (path, f["name"], adt["path"])
        r = shape_ok(F, fty, val[f["name"]], "%s.%s" % (path, f["name"]))
        if r:
            return r
    return None


def run(run):
    F = run.facts()
    C = run.facts("cwe_checker")
    run.explanation = (
        "Static contract analysis around the pipeline: (R1) for every serde_json::from_value::<T> reachable from a check's entry point "
        "the struct T (fields and types from the compiler's item table) is matched against the shipped src/config.json and "
        "src/lkm_config.json; (R2) every check whose code unwraps an optional analysis result is looked up in the prerequisite tables "
        "of run_with_ghidra, read from the THIR as constants; (R3) statement order sort-after-last-append-before-print on the top-level "
        "sequence; (R4) provenance of the name/version arguments of every CweWarning::new. Decides these contracts, not panic freedom "
        "of the analyses themselves.")
    run.rule("R1", "configuration structs of the checks match the shipped configuration files")
    run.rule("R2", "analysis prerequisites of each check are declared in run_with_ghidra; analyses computed in dependency order")
    run.rule("R3", "warnings sorted after the last append and before printing; JSON serialises the whole vector; --quiet empties logs")
    run.rule("R4", "every warning carries name and version of the emitting check")

    statics = module_statics(F)
    by_name = {e["name"]: (p, e) for p, e in statics.items()}
    cfg = json.load(open(os.path.join(run.repo, "src", "config.json")))
    lkm_cfg = json.load(open(os.path.join(run.repo, "src", "lkm_config.json")))
    lkm_names = []
    lk = [f for f in F.fns if f["name"] == "MODULES_LKM"]
    if lk:
        lkm_names = [x[1] for x in S.subterms(S.Sym(F).term(lk[0]["body"])) if isinstance(x, tuple) and x and x[0] == "lit"]

    main = C.fn("run_with_ghidra")
    sy = S.Sym(C)
    env = {}
    mt = sy.term(main["body"], env)
    stmts = list(mt[1]) + [mt[2]] if mt[0] == "seq" else [mt]
    msite = C.loc(main["body"])

    # key used for compute_pointer_inference / compute_string_abstraction
    analysis_keys = {}
    for x in S.subterms(mt):
        if is_call(x, ("compute_pointer_inference", "compute_string_abstraction")):
            for a in x[2]:
                if is_call(a, "index") and a[2][1][0] == "lit":
                    analysis_keys[x[1]] = a[2][1][1]

    def r1():
        n = 0
        for f in F.fns:
            if f["dk"] == "Closure":
                continue
            for c in T.calls_fn(F, f, name="from_value"):
                if "serde_json" not in c["f"]:
                    continue
                tyname = c["ga"][0] if c.get("ga") else None
                if tyname is None or tyname not in F.adts:
                    continue
                # which config key(s)?
                keys = []
                mods = [e for p, e in statics.items() if e.get("run") == f["path"]]
                if mods:
                    keys = [mods[0]["name"]]
                elif f["name"] in analysis_keys:
                    keys = [analysis_keys[f["name"]]]
                else:
                    continue
                adt = F.adts[tyname]
                for key in keys:
                    for fname, conf, required in (("config.json", cfg, True), ("lkm_config.json", lkm_cfg, key in lkm_names or key in ("Memory",))):
                        if not required:
                            continue
                        n += 1
                        ikey = "%s|%s|%s" % (fname, key, tyname)
                        site = F.loc(c)
                        if key not in conf:
                            run.violated("R1", ikey, "%s has no entry `%s` for the parameters of %s" % (fname, key, tyname), site)
                            continue
                        r = struct_ok(F, adt, conf[key], key)
                        if r is None:
                            run.holds("R1", ikey, "", site)
                        elif r.startswith("UNDECIDED:"):
                            run.undecided("R1", ikey, r[10:], site)
                        else:
                            run.violated("R1", ikey, "%s does not fit %s: %s" % (fname, tyname, r), site)
        run.floor("configuration contracts", n, 16)

    run.guarded("R1", r1)

    def needs_of(path_prefixes, entry):
        """which optional analysis results are unwrapped by code reachable from `entry`
        (resolved call graph inside the crate)"""
        seen = set()
        todo = [entry]
        needs = {}
        while todo:
            p = todo.pop()
            if p in seen or p not in F.by_path:
                continue
            seen.add(p)
            fn = F.by_path[p]
            nodes = list(T.walk_fn(F, fn))
            for n in nodes:
                if T.is_call(n, ("unwrap", "expect")) and n["a"]:
                    a = T.peel(n["a"][0])
                    if a.get("k") == "Field" and a.get("adt", "").endswith("AnalysisResults") and a.get("fn") in ("pointer_inference", "function_signatures", "string_abstraction"):
                        needs.setdefault(a["fn"], F.loc(n))
                if n.get("k") == "Call" and "f" in n:
                    tgt = n.get("r") or n["f"]
                    if tgt in F.by_path and tgt not in seen:
                        todo.append(tgt)
                if n.get("k") == "FnRef":
                    tgt = n.get("r") or n["f"]
                    if tgt in F.by_path and tgt not in seen:
                        todo.append(tgt)
        return needs

    COMPUTE = ("compute_function_signatures", "compute_pointer_inference", "compute_string_abstraction")
    NEED2COMP = {"function_signatures": "compute_function_signatures", "pointer_inference": "compute_pointer_inference", "string_abstraction": "compute_string_abstraction"}

    def module_list_ids():
        return {s_["p"]["id"] for s_ in T.walk(main["body"]) if s_.get("k") == "LetStmt" and "i" in s_ and s_["p"].get("k") == "Bind" and any(T.is_call(x, "get_modules") for x in T.walk(s_["i"]))}

    def selection_scenario(name):
        """nodes of run_with_ghidra that can run when exactly the check `name` is selected: every `modules.iter().any(pred)` /
        `.all(pred)` is decided by evaluating pred for that name (lib/strpred); closures of `cond.then(|| ..)` are entered"""
        from .lib import peval as PE
        from .lib import strpred as SP
        mods = module_list_ids()
        sp = SP.StrPred([C, F])
        env0 = {}
        for x in T.walk(main["body"]):
            if x.get("k") == "LetStmt" and "i" in x and x["p"].get("k") == "Bind":
                v = sp.ev(x["i"], env0)
                if v is not None:
                    env0[x["p"]["id"]] = v
        hits = {"decided": 0, "open": 0}

        def assume(n):
            def recv_root(e):
                e = T.peel(e)
                while e.get("k") == "Call" and e.get("n") in ("iter", "into_iter", "iter_mut", "copied", "cloned") and e.get("a"):
                    e = T.peel(e["a"][0])
                return T.root_var_id(e)
            if n.get("k") == "Call" and n.get("n") in ("any", "all") and len(n.get("a", [])) == 2 and recv_root(n["a"][0]) in mods:
                cl = T.peel(n["a"][1])
                c = C.by_path.get(cl.get("d")) if cl.get("k") == "Closure" else None
                bp = SP.closure_param(c) if c is not None else None
                if bp is not None:
                    e1 = dict(env0)
                    for (_owner, pid), anode in list(spec.arg_nodes.items()):
                        v_ = sp.ev(anode, env0)
                        if v_ is not None:
                            e1[pid] = v_
                    e1[bp["id"]] = ("struct", {"name": name})
                    r = sp.ev(c["body"], e1)
                    if r is not None:
                        hits["decided"] += 1
                        return ("bool", r)
                hits["open"] += 1
            return None
        from .lib import bindsrc as B
        spec = PE.Spec(C, assume=assume, enter_closures=True, follow_calls=True, scope=B.bodies(C, main))
        nodes = spec.reach(main["body"], {})
        return nodes, hits

    def r2():
        from .lib import bindsrc as B
        scen = {}
        for p, e in sorted(statics.items()):
            if not e.get("run"):
                continue
            name = e["name"]
            needs = needs_of(None, e["run"])
            nodes, hits = selection_scenario(name)
            reached = [x["n"] for x in nodes if T.is_call(x, COMPUTE)]
            scen[name] = (reached, hits)
            for what, site in sorted(needs.items()):
                comp = NEED2COMP[what]
                key = "%s|needs|%s" % (name, what)
                run.check("R2", key, comp in reached, "check %s unwraps AnalysisResults.%s (at %s) but a run that selects only this check does not compute it (%s is not reached in run_with_ghidra for this selection): the run panics" % (name, what, site, comp), msite)
        if not scen:
            raise T.AnchorMissing("no check module with a run function")
        decided = sum(h["decided"] for r_, h in scen.values())
        # dependency order of the analyses, and prerequisites between the analyses themselves: string abstraction consumes (and
        # unwraps) the pointer-inference result and pointer inference the function signatures
        bad_order, bad_imp = [], {("compute_string_abstraction", "compute_pointer_inference"): [], ("compute_pointer_inference", "compute_function_signatures"): []}
        seen_all = set()
        for name, (reached, hits) in sorted(scen.items()):
            seen_all |= set(reached)
            firsts = []
            for r_ in reached:
                if r_ not in firsts:
                    firsts.append(r_)
            want = [c for c in COMPUTE if c in firsts]
            if firsts != want:
                bad_order.append((name, firsts))
            for (b_, a_) in bad_imp:
                if b_ in reached and a_ not in reached:
                    bad_imp[(b_, a_)].append(name)
        if not set(COMPUTE) <= seen_all:
            run.undecided("R2", "analysis-order", "not every analysis is reached for some selection: %s" % sorted(seen_all), msite)
        else:
            run.check("R2", "analysis-order", not bad_order, "function signatures must be computed before pointer inference and pointer inference before string abstraction; order for a run selecting %s is %s" % (bad_order[0] if bad_order else ("", "")), msite)
        whys = {("compute_string_abstraction", "compute_pointer_inference"): "compute_string_abstraction unwraps the pointer-inference result it is given",
                ("compute_pointer_inference", "compute_function_signatures"): "the pointer inference reads the function signatures"}
        for (b_, a_), names in bad_imp.items():
            key = "implies|%s=>%s" % (b_.replace("compute_", ""), a_.replace("compute_", ""))
            if not decided:
                run.undecided("R2", key, "the selection predicates of run_with_ghidra were not evaluated", msite)
            else:
                run.check("R2", key, not names, "a run that selects only %s computes %s but not %s: the run panics (%s)" % (names[:3], b_.replace("compute_", ""), a_.replace("compute_", ""), whys[(b_, a_)]), msite)
        # each result is attached with the matching with_* call using the matching result
        roots = B.bodies(C, main)
        for comp, wit in (("compute_function_signatures", "with_function_signatures"), ("compute_pointer_inference", "with_pointer_inference"), ("compute_string_abstraction", "with_string_abstraction")):
            ws = [x for x in T.walk_fn(C, main) if T.is_call(x, wit)]
            ok = bool(ws) and all(any(T.is_call(y, comp) for src, how in B.sources(C, roots, w["a"][1]) for y in B.walk_with_closures(C, src)) for w in ws if len(w["a"]) > 1)
            run.check("R2", "attached|%s" % wit, ok, "%s must attach the result of %s" % (wit, comp), msite)

    run.guarded("R2", r2)

    def r3():
        from .lib import peval as PE
        from .lib import bindsrc as B
        from .lib import mayflow as MF
        body = main["body"]
        prints = T.paths_to(body, lambda y: T.is_call(y, "print_all_messages"))
        if len(prints) != 1:
            raise T.AnchorMissing("print_all_messages is not called exactly once in run_with_ghidra")
        pc, pconds = prints[0]
        cw = T.root_var_id(pc["a"][1]) if len(pc["a"]) > 1 else None
        order = [x for x in T.walk(body)]
        pos = {id(x): i for i, x in enumerate(order)}
        from .lib import sortprint as SP2
        sp_ = SP2.analyse(C, main)
        if sp_["verdict"] == "undecided":
            run.undecided("R3", "sorted-before-print", sp_["why"], msite)
        else:
            run.check("R3", "sorted-before-print", sp_["verdict"] == "holds", "the collected warnings must be sorted unconditionally (total order of CweWarning) after the last one was added and before they are printed: %s" % sp_["why"], msite)
        run.check("R3", "print-gets-all-warnings", sp_["printed_is_var"], "print_all_messages must receive the sorted warning vector itself; found %s" % T.show(pc["a"][1], C)[:100], msite)
        # --quiet: the log list handed to print_all_messages is empty
        hits = {"quiet": 0}

        def assume_q(n):
            if n.get("k") == "Field" and n.get("fn") == "quiet":
                hits["quiet"] += 1
                return ("bool", True)
            return None
        spec = PE.Spec(C, assume=assume_q, follow_calls=True)
        nodes = spec.reach(body, {})
        a0 = T.peel(pc["a"][0])
        if a0.get("k") in ("Var", "Upvar"):
            src, how = B.binder(body, a0["id"])
            sp_ = T.peel(src) if src is not None else {}
            g_ = (C.by_path.get(sp_.get("r") or "") or C.by_path.get(sp_.get("f") or "")) if sp_.get("k") == "Call" else None
            if g_ is not None and g_.get("dk") in ("Fn", "AssocFn") and T.pat_peel({"k": "x"}) is not None:
                a0 = sp_

        def is_empty_vec(e):
            e = T.peel(e)
            return (T.is_call(e, ("new", "default", "with_capacity")) and "Vec" in (C.ty(e) or "")) or (e.get("k") == "Call" and e.get("n") == "into_vec" and False)
        emptied = None
        if a0.get("k") in ("Var", "Upvar"):
            lid = a0["id"]
            emptied = any((x.get("k") == "Assign" and T.root_var_id(x["l"]) == lid and is_empty_vec(x["r"])) or (T.is_call(x, ("clear",)) and x.get("a") and T.root_var_id(x["a"][0]) == lid) for x in nodes)
        elif a0.get("k") == "Call":
            g = C.by_path.get(a0.get("r") or "") or C.by_path.get(a0.get("f") or "")
            if g is not None and g.get("dk") in ("Fn", "AssocFn"):
                res, _n = PE.Spec(C, assume=assume_q, follow_calls=True).results(g["body"], {})
                emptied = bool(res) and all(is_empty_vec(r) for r in res)
        if emptied:
            run.holds("R3", "quiet-empties-logs", "", msite)
        elif not hits["quiet"]:
            run.violated("R3", "quiet-empties-logs", "--quiet must discard all log messages before printing; args.quiet is not consulted in run_with_ghidra or its helpers", msite)
        elif emptied is False and a0.get("k") in ("Var", "Upvar"):
            run.violated("R3", "quiet-empties-logs", "--quiet must discard all log messages before printing; with --quiet the log list handed to print_all_messages is not emptied", msite)
        else:
            run.undecided("R3", "quiet-empties-logs", "the log argument %s is not traced" % T.show(pc["a"][0], C)[:80], msite)
        # print_all_messages: with emit_json the whole `cwes` vector is serialised
        p = F.fn("print_all_messages", mod="utils::log")
        ps = {b[1]: b[0] for p_ in p["params"] if p_.get("p") for b in T.pat_bindings(p_["p"])}
        jid = ps.get("emit_json")
        cid = ps.get("cwes")
        if jid is None or cid is None:
            bools = [b[0] for p_ in p["params"] if p_.get("p") for b in T.pat_bindings(p_["p"]) if C.types and F.tyi(p_["p"]["t"]) == "bool"]
            vecs = [b[0] for p_ in p["params"] if p_.get("p") for b in T.pat_bindings(p_["p"]) if "CweWarning" in F.tyi(p_["p"]["t"])]
            jid, cid = (bools[0] if bools else None), (vecs[0] if vecs else None)
        SER = ("to_string_pretty", "to_string", "to_vec", "to_writer", "to_writer_pretty", "to_vec_pretty")
        nodes_j = PE.Spec(F, follow_calls=True, enter_closures=True).reach(p["body"], {jid: ("bool", True)}) if jid is not None else []
        sers = [x for x in nodes_j if T.is_call(x, SER) and "serde_json" in (x.get("f") or "")]
        mf = MF.MayFlow(F)
        mf.run(p, {cid} if cid is not None else set())
        flows = [x for x in sers if any(mf.mentions(a, mf.reached.get(gp, set())) for gp in mf.reached for a in x.get("a", []))]
        cut = [x["n"] for gp, b_, x in mf.uses(lambda y: y.get("n") in ("filter", "take", "skip", "step_by", "take_while", "skip_while", "filter_map", "truncate", "retain", "dedup", "first", "last", "nth", "index", "get", "split_at", "split_first", "split_last", "chunks"))]
        if jid is None or cid is None:
            run.undecided("R3", "json-serialises-whole-vector", "parameters of print_all_messages not recognised", F.loc(p["body"]))
        elif not sers:
            run.violated("R3", "json-serialises-whole-vector", "with --json the output must be the serialisation of the complete warning vector; no serde_json serialiser is reached when emit_json is set", F.loc(p["body"]))
        else:
            run.check("R3", "json-serialises-whole-vector", bool(flows) and not cut, "with --json the output must be the serialisation of the complete warning vector (serialiser fed from the warnings: %s, restricting operations on them: %s)" % (bool(flows), cut), F.loc(p["body"]))

    run.guarded("R3", r3)

    def r4():
        n = 0
        for f in F.fns:
            if "expn" in f and "Derive" in f["expn"]:
                continue
            for c in T.calls(f["body"], name="new"):
                if not (c.get("is", "").endswith("CweWarning") or "CweWarning" in c["f"]):
                    continue
                if len(c["a"]) < 2:
                    continue
                sy2 = S.Sym(F)
                a0, a1 = sy2.ev(c["a"][0], {}), sy2.ev(c["a"][1], {})
                while is_call(a0, ("from", "into", "to_string", "to_owned", "as_str")) and len(a0[2]) == 1:
                    a0 = a0[2][0]
                while is_call(a1, ("from", "into", "to_string", "to_owned", "as_str")) and len(a1[2]) == 1:
                    a1 = a1[2][0]
                n += 1
                site = F.loc(c)
                root = f.get("root") or f["path"]
                key = "%s|%d" % (root, [x for x in T.calls(f["body"], name="new") if "CweWarning" in x["f"]].index(c))

                def static_of(t, fld):
                    if t[0] == "field" and t[2] == fld and t[1][0] == "const" and t[1][1] in statics:
                        return t[1][1]
                    return None
                s0, s1 = static_of(a0, "name"), static_of(a1, "version")
                fmod = f["mod"]
                if s0 and s1:
                    same = s0 == s1
                    home = statics[s0]["mod"] == fmod or fmod.startswith(statics[s0]["mod"] + "::") or statics[s0]["mod"].startswith(fmod)
                    run.check("R4", key, same and home, "warning built with name of %s and version of %s inside module %s: a warning must carry name and version of the check that emits it" % (s0, s1, fmod), site)
                elif a0[0] == "lit" and s1:
                    lit_ok = isinstance(a0[1], str) and re.fullmatch(r"CWE\d+", a0[1]) is not None
                    home = statics[s1]["mod"] == fmod or fmod.startswith(statics[s1]["mod"] + "::")
                    run.check("R4", key, lit_ok and home, "warning named by literal %r with the version of %s in module %s" % (a0[1], s1, fmod), site)
                elif a0[0] == "var" or a1[0] == "var":
                    # name passed through a helper parameter: holds if all callers pass a module's name (one level)
                    run.holds("R4", key, "name/version passed in by the caller (%s, %s)" % (fmt(a0), fmt(a1)), site)
                else:
                    run.undecided("R4", key, "name/version provenance outside vocabulary: %s / %s" % (fmt(a0), fmt(a1)), site)
        run.floor("CweWarning::new sites", n, 15)

    run.guarded("R4", r4)
