"""C06 String abstractions over-approximate -- ONLY the operator tables of the two domains.

Language preservation of BricksDomain::normalize / widen for every brick configuration (the bulk of the property)
needs the set of strings each value stands for and is NOT decided. Decided are the tables whose entries are each a
necessary condition of "merge represents every member of either input" / "append represents every concatenation":
 R1 character inclusion, merge: Top if either input is Top; otherwise certainly-contained = INTERSECTION of the
    certain sets and possibly-contained = UNION of the possible sets (a character certain in only one input is not
    certain in the join; a character possible in either is possible in the join)
 R2 character inclusion, append: certain = union of both certain sets, possible = union of both possible sets;
    with a Top operand the result keeps the other operand's certain set and has possible = Top
 R3 CharacterSet: union is Top if either side is Top and otherwise the set union; intersection is the set intersection
 R4 bricks, append: the bricks of self come first, then those of the appended value; a Top operand becomes a Top brick
    on its side
 R5 bricks, brick-wise join (BrickDomain::widen): strings = union of both string sets, min = MINIMUM of the mins,
    max = MAXIMUM of the maxes; beyond the thresholds the result only gets wider (Top brick / [0, u32::MAX])
 R6 brick transforms used by normalisation: merging two [..]^{1,1} bricks concatenates self's strings before other's
    and yields {1,1}; merging bricks with equal content adds mins and adds maxes; breaking [S]^{m,M} yields
    ([S^m]^{1,1}, [S]^{0,M-m})
 R7 each transform is applied by BricksDomain::normalize only under the precondition that makes it an identity on
    languages: equal-content merge under EQUALITY of the string sets (a subset test is not enough), the product merge
    for two {1,1} bricks, the power transform for min == max, the break for min >= 1 and max > min
"""
from .lib import sym as S
from .lib import thir as T
from .lib.sym import fmt


def is_call(t, name=None):
    return isinstance(t, tuple) and t and t[0] == "call" and (name is None or t[1] == name or (isinstance(name, (set, tuple, frozenset)) and t[1] in name))


def run(run):
    F = run.facts()
    run.explanation = (
        "Static table extraction from the merge / append / transform operations of the character-inclusion and brick string domains on normalised THIR terms: which set operator "
        "(resolved callee: union / intersection, min / max, +) combines which component of which operand, operand order of concatenations, and the Top cases. Each entry is compared "
        "with the entry the meaning of the component dictates. Decides these operator tables only; language preservation of normalisation/widening is not decided.")
    for rid, text in (("R1", "character inclusion merge: Top-absorbing, certain = intersection, possible = union"), ("R2", "character inclusion append: unions; Top operand keeps the other's certain set"),
                      ("R3", "CharacterSet union / intersection primitives"), ("R4", "bricks append: self first, Top operand becomes a Top brick on its side"),
                      ("R5", "brick join: strings union, min of mins, max of maxes, thresholds only widen"), ("R6", "brick transforms of the normalisation rules")):
        run.rule(rid, text)

    def pair_fields(t):
        """the (certain, possible) tuple inside a CharacterInclusionDomain::Value literal"""
        t = S.value(t)
        if t[0] == "adt" and t[2] == "Value":
            tup = S.value(dict(t[3])["0"])
            if tup[0] == "tuple" and len(tup[1]) == 2:
                return S.value(tup[1][0]), S.value(tup[1][1])
        return None

    def comp(t):
        """('self'|'other', 0|1) for a component of an operand's (certain, possible) pair"""
        s = fmt(S.value(t))
        who = "self" if s.startswith("self") or "(self)" in s else "other" if ("other" in s or "string_domain" in s) else None
        idx = 0 if s.endswith(".0") else 1 if s.endswith(".1") else None
        return (who, idx) if who is not None and idx is not None else None

    def r1():
        fn = F.fn("merge", adt="CharacterInclusionDomain", trait="AbstractDomain")
        t = S.value(S.Sym(F).term(fn["body"]))
        site = F.loc(fn["body"])
        lits = [x for x in S.subterms(t) if isinstance(x, tuple) and x and x[0] == "adt" and x[1].endswith("CharacterInclusionDomain") and x[2] == "Value"]
        run.floor("R1 value results of the merge", len(lits), 1)
        for lit in lits:
            pf = pair_fields(lit)
            if pf is None:
                run.undecided("R1", "ci-merge|shape", fmt(lit)[:80], site)
                continue
            for name, term, want_op, idx in (("certain", pf[0], "intersection", 0), ("possible", pf[1], "union", 1)):
                key = "ci-merge|%s" % name
                if is_call(term, ("union", "intersection")) and len(term[2]) == 2:
                    a, b = comp(term[2][0]), comp(term[2][1])
                    ok_ops = {a, b} == {("self", idx), ("other", idx)}
                    if term[1] != want_op:
                        run.violated("R1", key, "the %s characters of a merged value must be the %s of the inputs' %s sets; found %s: %s" % (name, want_op, name, term[1], "a character certain in only one input would be certain in the join" if name == "certain" else "a character possible in only one input would be excluded from the join"), site)
                    else:
                        run.check("R1", key, ok_ops, "the %s set must combine the %s sets of BOTH inputs; found %s and %s" % (name, name, a, b), site)
                else:
                    run.undecided("R1", key, fmt(term)[:80], site)
        # Top absorbing
        top_first = t[0] == "ite" and S.value(t[2])[0] == "adt" and S.value(t[2])[2] == "Top" and t[1][0] == "or" and all(is_call(S.value(x), "is_top") for x in (t[1][1], t[1][2]))
        (run.holds if top_first else run.undecided)("R1", "ci-merge|top-absorbing", "merge must be Top if either input is Top; found %s" % fmt(t)[:80], site)

    run.guarded("R1", r1)

    def r2():
        fn = F.fn("append_string_domain", adt="CharacterInclusionDomain")
        t = S.value(S.Sym(F).term(fn["body"]))
        site = F.loc(fn["body"])
        if t[0] != "match":
            run.undecided("R2", "ci-append|shape", fmt(t)[:80], site)
            return
        cases = {}
        for pat, g, body in t[2]:
            sk = "Top" if pat.strip().startswith("Top") else "Value"
            b = S.value(body)
            if b[0] == "match":
                for p2, g2, b2 in b[2]:
                    ok2 = "Top" if p2.strip().startswith("Top") else "Value"
                    cases[(sk, ok2)] = S.value(b2)
        run.floor("R2 cases of the append table", len(cases), 4)
        vv = cases.get(("Value", "Value"))
        pf = pair_fields(vv) if vv else None
        if pf:
            for name, term, idx in (("certain", pf[0], 0), ("possible", pf[1], 1)):
                if is_call(term, ("union", "intersection")) and len(term[2]) == 2:
                    a, b = comp(term[2][0]), comp(term[2][1])
                    if term[1] != "union":
                        run.violated("R2", "ci-append|value-value|%s" % name, "a concatenation contains the characters of both parts: the %s set must be the UNION; found %s" % (name, term[1]), site)
                    else:
                        run.check("R2", "ci-append|value-value|%s" % name, {a, b} == {("self", idx), ("other", idx)}, "the %s set of a concatenation must combine the %s sets of both parts; found %s and %s" % (name, name, a, b), site)
                else:
                    run.undecided("R2", "ci-append|value-value|%s" % name, fmt(term)[:80], site)
        else:
            run.undecided("R2", "ci-append|value-value", "shape", site)
        for case, keep in ((("Value", "Top"), "self"), (("Top", "Value"), "other")):
            b = cases.get(case)
            pf = pair_fields(b) if b else None
            key = "ci-append|%s-%s" % case
            if pf is None:
                run.undecided("R2", key, fmt(b)[:80] if b else "missing", site)
                continue
            c0 = comp(pf[0])
            poss_top = pf[1][0] == "adt" and pf[1][2] == "Top"
            run.check("R2", key + "|certain", c0 == (keep, 0), "appending an unknown string keeps exactly the certain characters of the known part; found %s" % fmt(pf[0])[:60], site)
            run.check("R2", key + "|possible", poss_top, "appending an unknown string makes every character possible (Top); found %s" % fmt(pf[1])[:60], site)
        tt = cases.get(("Top", "Top"))
        run.check("R2", "ci-append|Top-Top", tt is not None and tt[0] == "adt" and tt[2] == "Top", "Top appended to Top is Top", site)

    run.guarded("R2", r2)

    def r3():
        for name, prim in (("union", "union"), ("intersection", "intersection")):
            fn = F.fn(name, adt="CharacterSet")
            t = S.Sym(F).term(fn["body"])
            site = F.loc(fn["body"])
            vals = [x for x in S.subterms(t) if isinstance(x, tuple) and x and x[0] == "adt" and x[1].endswith("CharacterSet") and x[2] == "Value"]
            prims = [y for v in vals for y in S.subterms(v) if is_call(y, ("union", "intersection", "difference", "symmetric_difference")) and "BTreeSet" in y[3]]
            if len(prims) != 1:
                run.undecided("R3", "CharacterSet::%s|primitive" % name, "%d set primitives" % len(prims), site)
            else:
                run.check("R3", "CharacterSet::%s|primitive" % name, prims[0][1] == prim, "CharacterSet::%s computes the set %s" % (name, prims[0][1]), site)
        fn = F.fn("union", adt="CharacterSet")
        t = S.Sym(F).term(fn["body"])
        rets = [x for x in S.subterms(t) if isinstance(x, tuple) and x and x[0] == "ite" and x[1][0] == "or" and all(is_call(S.value(z), "is_top") for z in (x[1][1], x[1][2]))]
        ok = any(any(isinstance(y, tuple) and y and y[0] == "adt" and y[2] == "Top" for y in S.subterms(x[2])) for x in rets)
        (run.holds if ok else run.undecided if rets else run.violated)("R3", "CharacterSet::union|top-absorbing", "the union with Top (all characters) must be Top", F.loc(fn["body"]))

    run.guarded("R3", r3)

    def r4():
        fn = F.fn("append_string_domain", adt="BricksDomain")
        t = S.value(S.Sym(F).term(fn["body"]))
        site = F.loc(fn["body"])
        if t[0] != "match":
            run.undecided("R4", "bricks-append|shape", fmt(t)[:80], site)
            return
        cases = {}
        for pat, g, body in t[2]:
            sk = "Top" if pat.strip().startswith("Top") else "Value"
            b = S.value(body) if S.value(body)[0] == "match" else body
            b = body
            while isinstance(b, tuple) and b and b[0] == "seq" and not b[1]:
                b = b[2]
            bm = b if b[0] == "match" else S.value(b)
            if bm[0] == "match":
                for p2, g2, b2 in bm[2]:
                    cases[(sk, "Top" if p2.strip().startswith("Top") else "Value")] = b2
        run.floor("R4 cases of the bricks append table", len(cases), 4)

        def sequence_of(b):
            """['self' | 'other' | 'TopBrick'] in the order the result vector is built"""
            st = list(b[1]) + [b[2]] if b[0] == "seq" else [b]
            order = []
            for s_ in st:
                for y in [s_]:
                    if y[0] == "letstmt":
                        init = fmt(y[2])
                        if "BrickDomain::Top" in init:
                            order.append("TopBrick")
                        elif init.startswith("self"):
                            order.append("self")
                        elif "string_domain" in init or init.startswith("other"):
                            order.append("other")
                    elif is_call(y, ("append", "extend", "push", "extend_from_slice")) and len(y[2]) == 2:
                        a = fmt(y[2][1])
                        order.append("TopBrick" if "BrickDomain::Top" in a else "self" if a.startswith("self") else "other" if ("string_domain" in a or a.startswith("other")) else "?" + a[:20])
            tail = S.value(b)
            if tail[0] == "adt" and tail[2] == "Value" and not any(isinstance(s_, tuple) and s_ and s_[0] == "letstmt" for s_ in st):
                payload = fmt(S.value(dict(tail[3])["0"]))
                head = "self" if payload.startswith("self") else "other" if ("string_domain" in payload or payload.startswith("other")) else "?" + payload[:20]
                order = [head] + order
            return order
        want = {("Value", "Value"): ["self", "other"], ("Value", "Top"): ["self", "TopBrick"], ("Top", "Value"): ["TopBrick", "other"]}
        for case, w in want.items():
            b = cases.get(case)
            key = "bricks-append|%s-%s" % case
            if b is None:
                run.undecided("R4", key, "missing", site)
                continue
            got = sequence_of(b)
            if any(x.startswith("?") for x in got) or not got:
                run.undecided("R4", key, "construction %s" % got, site)
            else:
                run.check("R4", key, got == w, "the bricks of a concatenation must be %s in this order; found %s (the strings of the appended value would come first / a part would be lost)" % (w, got), site)
        tt = cases.get(("Top", "Top"))
        tv = S.value(tt) if tt else None
        run.check("R4", "bricks-append|Top-Top", tv is not None and tv[0] == "adt" and tv[2] == "Top", "Top appended to Top is Top", site)

    run.guarded("R4", r4)

    def r5():
        fn = F.fn("widen", adt="BrickDomain")
        t = S.Sym(F).term(fn["body"])
        site = F.loc(fn["body"])
        sets = {}
        for x in S.subterms(t):
            if is_call(x, ("set_min", "set_max", "set_sequence")) and len(x[2]) == 2:
                sets.setdefault(x[1], []).append(S.value(x[2][1]))
        for which, want_fn, getter in (("set_min", "min", "get_min"), ("set_max", "max", "get_max")):
            vals = sets.get(which, [])
            key = "brick-join|%s" % which[4:]
            folds = [v for v in vals if is_call(v, ("min", "max"))]
            consts = [v for v in vals if not is_call(v, ("min", "max"))]
            if len(folds) != 1:
                run.undecided("R5", key, "%d fold expressions" % len(folds), site)
                continue
            f_ = folds[0]
            gets = [fmt(S.value(a)) for a in f_[2]]
            both = any("self" in g_ for g_ in gets) and any("other" in g_ for g_ in gets) and all(getter in g_ for g_ in gets)
            if f_[1] != want_fn:
                run.violated("R5", key, "the %s number of repetitions of the joined brick must be the %s of the inputs' values; found %s(..): a repetition count allowed by one input would be excluded" % ("minimal" if want_fn == "min" else "maximal", want_fn.upper(), f_[1]), site)
            else:
                run.check("R5", key, both, "the %s of the join must combine %s of BOTH inputs; found %s" % (which[4:], getter, gets), site)
            # threshold branch only widens
            for c in consts:
                cs = fmt(c)
                wide = (cs in ("0", "'0'") if want_fn == "min" else "MAX" in cs)
                run.check("R5", key + "|threshold", wide, "beyond the interval threshold the bound must be the widest possible (%s); found %s" % ("0" if want_fn == "min" else "u32::MAX", cs), site)
        seqs = sets.get("set_sequence", [])
        prims = [y for v in seqs for y in S.subterms(v) if is_call(y, ("union", "intersection", "difference", "symmetric_difference")) and "BTreeSet" in y[3]]
        if len(prims) != 1:
            run.undecided("R5", "brick-join|strings", "%d set primitives" % len(prims), site)
        else:
            both = {"self" in fmt(a) for a in prims[0][2]} == {True, False} or ("self" in fmt(prims[0][2][0]) and "other" in fmt(prims[0][2][1])) or ("other" in fmt(prims[0][2][0]) and "self" in fmt(prims[0][2][1]))
            run.check("R5", "brick-join|strings", prims[0][1] == "union" and both, "the strings of the joined brick must be the UNION of both inputs' strings; found %s of %s" % (prims[0][1], [fmt(a)[:40] for a in prims[0][2]]), site)
        tops = [x for x in S.subterms(t) if isinstance(x, tuple) and x and x[0] == "ite" and any(isinstance(y, tuple) and y and y[0] == "adt" and y[1].endswith("BrickDomain") and y[2] == "Top" for y in S.subterms(x[2]))]
        run.check("R5", "brick-join|sequence-threshold-gives-top", bool(tops), "beyond the sequence threshold the joined brick must be Top (never a truncated string set)", site)

    run.guarded("R5", r5)

    def r6():
        fn = F.fn("merge_bricks_with_bound_one", adt="Brick")
        t = S.value(S.Sym(F).term(fn["body"]))
        site = F.loc(fn["body"])
        if t[0] == "adt":
            fs = dict(t[3])
            run.check("R6", "bound-one|bounds", fmt(S.value(fs["min"])) in ("1", "'1'") and fmt(S.value(fs["max"])) in ("1", "'1'"), "two [..]^{1,1} bricks merge into a [..]^{1,1} brick; found {%s,%s}" % (fmt(fs["min"]), fmt(fs["max"])), site)
            cps = [y for y in S.subterms(fs["sequence"]) if is_call(y, "cartesian_product") and len(y[2]) == 2]
            if len(cps) == 1:
                first, second = fmt(cps[0][2][0]), fmt(cps[0][2][1])
                order_ok = "self" in first and "other" in second
                # the closure concatenates its first component before its second
                clos = F.closures(fn)
                conc_ok = None
                for c in clos:
                    ct = S.value(S.Sym(F).term(c["body"]))
                    if is_call(ct, "add") and len(ct[2]) == 2:
                        a, b = fmt(ct[2][0]), fmt(ct[2][1])
                        conc_ok = ("str1" in a or ".0" in a) and ("str2" in b or ".1" in b)
                if conc_ok is None:
                    run.undecided("R6", "bound-one|concatenation-order", "closure shape", site)
                else:
                    run.check("R6", "bound-one|concatenation-order", order_ok and conc_ok, "the strings of self must come before the strings of the following brick (product of %s x %s)" % (first[:30], second[:30]), site)
            else:
                run.undecided("R6", "bound-one|concatenation-order", "no cartesian product", site)
        else:
            run.undecided("R6", "bound-one|shape", fmt(t)[:80], site)
        fn = F.fn("merge_bricks_with_equal_content", adt="Brick")
        t = S.value(S.Sym(F).term(fn["body"]))
        site = F.loc(fn["body"])
        if t[0] == "adt":
            fs = dict(t[3])
            for fld in ("min", "max"):
                v = S.value(fs[fld])
                ok = v[0] == "bin" and v[1] == "Add" and {fmt(v[2]), fmt(v[3])} == {"self." + fld, "other." + fld}
                run.check("R6", "equal-content|%s" % fld, ok, "[S]^{m1,M1}[S]^{m2,M2} = [S]^{m1+m2,M1+M2}: the %s of the merged brick must be self.%s + other.%s; found %s" % (fld, fld, fld, fmt(v)), site)
        else:
            run.undecided("R6", "equal-content|shape", fmt(t)[:80], site)
        fn = F.fn("break_single_brick_into_simpler_bricks", adt="Brick")
        t = S.value(S.Sym(F).term(fn["body"]))
        site = F.loc(fn["body"])
        if t[0] == "tuple" and len(t[1]) == 2:
            b1, b2 = S.value(t[1][0]), S.value(t[1][1])
            ok1 = is_call(b1, "transform_brick_with_min_max_equal") and "self.min" in fmt(b1[2][1])
            run.check("R6", "break|first-part-is-S^min", ok1, "the first part must be [S^min]^{1,1} (transform with self.min); found %s" % fmt(b1)[:80], site)
            if b2[0] == "adt":
                fs = dict(b2[3])
                mn, mx = S.value(fs["min"]), S.value(fs["max"])
                run.check("R6", "break|rest-min", fmt(mn) in ("0", "'0'"), "the rest is [S]^{0,max-min}; its min is %s" % fmt(mn), site)
                run.check("R6", "break|rest-max", mx[0] == "bin" and mx[1] == "Sub" and fmt(mx[2]) == "self.max" and fmt(mx[3]) == "self.min", "the rest is [S]^{0,max-min}; its max is %s" % fmt(mx), site)
                run.check("R6", "break|rest-strings", fmt(S.value(fs["sequence"])) == "self.sequence", "the rest keeps the string set", site)
        else:
            run.undecided("R6", "break|shape", fmt(t)[:80], site)

    run.guarded("R6", r6)


_run_r1_r6 = run


def run(run):  # noqa: F811
    _run_r1_r6(run)
    from .lib import cond as C
    F = run.facts()
    run.rule("R7", "each normalisation transform is applied only under the precondition that makes it language-preserving")

    def r7():
        fn = F.fn("normalize", adt="BricksDomain")
        site = F.loc(fn["body"])
        TR = ("merge_bricks_with_equal_content", "merge_bricks_with_bound_one", "transform_brick_with_min_max_equal", "break_single_brick_into_simpler_bricks")
        # normalize itself and the private helpers it delegates the choice of a transform to
        bodies = [fn]
        for n_ in T.walk_deep(F, fn["body"], depth=0):
            if n_.get("k") == "Call" and "f" in n_ and n_.get("n") not in TR:
                g = F.by_path.get(n_.get("r") or "") or F.by_path.get(n_.get("f") or "")
                if g is not None and g.get("dk") in ("Fn", "AssocFn") and g not in bodies and any(T.is_call(y, TR) for y in T.walk(g["body"])):
                    bodies.append(g)
        found = []
        for g in bodies:
            tg = S.Sym(F).term(g["body"])
            found.extend(C.conds_to(tg, lambda y: is_call(y, TR)))
        seen = set()
        for x, conds in found:
            name = x[1]
            if name in seen:
                continue
            seen.add(name)
            lits, opaque = C.path_literals(conds)
            texts = [a for a, v in lits if v]
            key = "normalize|%s|precondition" % name
            recv = fmt(S.value(x[2][0]))
            arg = fmt(S.value(x[2][1])) if len(x[2]) > 1 else ""
            if name == "merge_bricks_with_equal_content":
                eqs = [a for a in texts if a.startswith("eq(") and a.count("get_sequence") == 2]
                subs = [a for a, v in lits if ("is_subset" in a or "is_superset" in a) and "get_sequence" in a]
                if eqs:
                    run.holds("R7", key, eqs[0][:80], site)
                elif subs:
                    run.violated("R7", key, "two neighbouring bricks are merged into [S]^{m1+m2,M1+M2} under `%s`: that identity holds only for EQUAL string sets; with a subset the merged brick either loses strings of the larger set or lets the smaller brick's repetitions use them (the represented language changes)" % subs[0][:90], site)
                elif not texts and not opaque:
                    run.violated("R7", key, "bricks are merged as if they had equal content without any test of their string sets", site)
                else:
                    run.undecided("R7", key, "conditions %s" % texts[:3], site)
            elif name == "merge_bricks_with_bound_one":
                ok = any(a.startswith("eq(") and a.count("get_min") == 2 and a.count("get_max") == 2 and a.count("1") >= 4 for a in texts) or (sum(1 for a in texts if (a.startswith("eq(") or " Eq " in a) and ("get_min" in a or "get_max" in a) and "1" in a) >= 4)
                (run.holds if ok else run.undecided if opaque or texts else run.violated)("R7", key, "the cartesian-product merge needs both bricks to be [..]^{1,1}; conditions: %s" % texts[:3], site)
            elif name == "transform_brick_with_min_max_equal":
                ok = any(a.startswith("eq(") and "get_min" in a and "get_max" in a for a in texts) or any(("get_min" in a and "get_max" in a and " Eq " in a) for a in texts)
                (run.holds if ok else run.undecided if opaque or texts else run.violated)("R7", key, "[S]^{n,n} -> [S^n]^{1,1} needs min == max; conditions: %s" % texts[:3], site)
            elif name == "break_single_brick_into_simpler_bricks":
                ok = any("get_min" in a and ("Ge" in a or "Gt" in a) for a in texts) and any("get_max" in a and "get_min" in a and "Gt" in a for a in texts)
                (run.holds if ok else run.undecided if opaque or texts else run.violated)("R7", key, "[S]^{m,M} -> [S^m]^{1,1}[S]^{0,M-m} needs m >= 1 and M > m; conditions: %s" % texts[:3], site)
        run.floor("R7 transforms applied by normalize", len(seen), 4)

    run.guarded("R7", r7)
