"""C10 Optimising normalisation preserves behaviour -- dataflow side conditions.

 R1 liveness sees every use: every Expression slot of Def and Jmp (derived from the type
    definitions) is made alive by the backward transfer functions; kill precedes gen
 R2 only pure assignments are deleted, under `!alive.contains(var)`, iterating backwards
 R3 kill rules of expression propagation in both transfer functions and for both defining
    variants: no entry keyed by the defined variable and no entry mentioning it survives;
    calls/returns reset the map
 R4 control-flow propagation: call returns are retargeted without known conditions; the
    block precondition is dropped when any defining variant writes one of its inputs; edge
    condition polarity; only block-target slots are rewritten; blocks with defs are never
    bypassed
Does not decide: validity of the algebraic rewrites (bit-vector identities).
How: R1 by may-flow from the slot's bindings (in the function or helpers it calls) to an input_vars() that feeds the set;
R2 by specialising the removal loop per Def kind x alive/dead (is the def kept?).
 R4 precondition clause by specialisation: a Def of kind V writes an input of the precondition => a None result appears
"""
from .lib import slots as SL
from .lib import sym as S
from .lib import thir as T
from .lib.sym import fmt


def is_call(t, name=None):
    return isinstance(t, tuple) and t and t[0] == "call" and (name is None or t[1] == name or (isinstance(name, (set, tuple, frozenset)) and t[1] in name))


def mentions_var(t, name):
    return any(isinstance(x, tuple) and x and x[0] == "var" and x[1] == name for x in S.subterms(t))


def run(run):
    F = run.facts()
    run.explanation = (
        "Static gen/kill and slot-coverage analysis of the optimising passes: the Expression-typed fields of Def and Jmp are derived "
        "from the type definitions and every one must be made alive by the liveness transfer functions; the match over Def in the "
        "dead-assignment remover may skip only Assign under a not-alive guard; the `retain` predicates and inserts of both "
        "expression-propagation transfer functions are normalised and must kill entries keyed by, and entries mentioning, the "
        "defined variable for both defining variants; control-flow propagation side conditions are checked on the match tables. "
        "Decides these side conditions (each necessary for behaviour preservation), not semantic equivalence of the passes.")
    run.assumptions = ["Return target expressions are exempt from liveness: all physical registers are alive at returns and temporaries do not survive a return"]
    run.rule("R1", "liveness: every Expression slot of Def/Jmp is a gen; kill before gen")
    run.rule("R2", "dead-assignment removal: only Assign, only when not alive, backwards, liveness updated for every def")
    run.rule("R3", "expression propagation kill rules (key kill + value kill) for Assign and Load in both transfer functions; reset at calls/returns")
    run.rule("R4", "control-flow propagation side conditions")

    def_slots = SL.fields_of_type(F, "intermediate_representation::def::Def", SL.is_expression_ty)
    jmp_slots = SL.fields_of_type(F, "intermediate_representation::jmp::Jmp", SL.is_expression_ty)
    run.floor("Expression slots of Def", len(def_slots), 4)
    run.floor("Expression slots of Jmp", len(jmp_slots), 4)
    defadt = F.adt("intermediate_representation::def::Def")
    defining = [v["name"] for v in defadt["variants"] if any(f["name"] == "var" for f in v["fields"])]
    run.floor("defining Def variants", len(defining), 2)

    def local_callees(fn, depth=2, _seen=None):
        """crate-local functions called from fn (transitively to `depth`), with the call node that enters each"""
        seen = _seen if _seen is not None else {fn["path"]}
        out = []
        for n in T.walk_fn(F, fn):
            if n.get("k") == "Call":
                g = F.by_path.get(n.get("r") or "") or F.by_path.get(n.get("f") or "")
                if g is not None and g.get("dk") in ("Fn", "AssocFn") and g["path"] not in seen and sum(1 for _ in T.walk(g["body"])) < 400:
                    seen.add(g["path"])
                    out.append((g, n))
                    if depth > 1:
                        out.extend(local_callees(g, depth - 1, seen))
        return out

    def feeds_set(body_fn, call):
        """the input_vars() call is the iterable of a for loop that inserts, or an argument of extend/append/union/insert"""
        for (node, pat, it, body) in T.for_loops(body_fn["body"]):
            if any(x is call for x in T.walk(it)) and any(T.is_call(x, ("insert", "extend")) for x in T.walk(body)):
                return True
        for x in T.walk(body_fn["body"]):
            if T.is_call(x, ("extend", "append", "union", "insert", "extend_from_slice")) and any(y is call for y in T.walk(x)):
                return True
            if T.is_call(x, ("for_each",)) and any(y is call for y in T.walk(x)):
                return True
        return False

    def gens(fn, adt, variant, field, scrut_var=None):
        """verdict for 'the input variables of slot (variant, field) are made alive by fn':
        ('gen', sinks) | ('nogen', reason) | ('unknown', reason)"""
        from .lib import mayflow as MF
        binds = []
        for (lid, name, scrut, owner) in SL.slot_bindings(F, fn, adt, variant, field):
            if scrut_var is not None:
                if scrut is None:
                    continue
                if not mentions_var(S.Sym(F).term(scrut), scrut_var):
                    continue
            binds.append((fn, lid))
        for (g, call) in local_callees(fn):
            if scrut_var is not None and not any(x.get("k") in ("Var", "Upvar") and x.get("n") == scrut_var for a in call.get("a", []) for x in T.walk(a)):
                continue
            for (lid, name, scrut, owner) in SL.slot_bindings(F, g, adt, variant, field):
                binds.append((g, lid))
        if not binds:
            # is the enum taken apart at all here? then this slot is simply not looked at
            looked = any(True for g in [fn] + [c for c, _ in local_callees(fn)] for pat, scrut, owner in SL.fn_patterns(F, g) for v in [vv["name"] for vv in F.adt(adt.split("::")[-1] if "::" not in adt else adt)["variants"]] for _ in SL.variant_subpatterns(pat, adt, v))
            if looked:
                return ("nogen", "the slot is never bound")
            # the enum is not taken apart here: can the result depend on the term at all?
            start = set()
            for p_ in fn["params"]:
                if p_.get("p"):
                    for (i, n_, _pth) in T.pat_bindings(p_["p"]):
                        if (scrut_var is not None and n_ == scrut_var) or (scrut_var is None and adt.split("::")[-1] in (F.tyi(p_["p"]["t"]) if isinstance(p_["p"].get("t"), int) else "")):
                            start.add(i)
            if start:
                mf0 = MF.MayFlow(F)
                mf0.run(fn, start)
                if not mf0.uses(lambda n: True):
                    return ("nogen", "the term is not inspected at all")
            return ("unknown", "the enum is not destructured in this function")
        mf = MF.MayFlow(F)
        for g, lid in binds:
            mf.run(g, {lid})
        sinks = [(gp, b, n) for (gp, b, n) in mf.uses(lambda n: n.get("n") == "input_vars") if feeds_set(b, n)]
        if sinks:
            return ("gen", sinks)
        return ("nogen", "no input_vars() of a value derived from the slot reaches an insert/extend")

    # ------------------------------------------------------------------ R1
    def r1():
        f_def = F.fn("update_alive_vars_by_def", mod="alive_vars_computation")
        for (v, f) in def_slots:
            verdict, why = gens(f_def, "def::Def", v, f)
            key = "update_alive_vars_by_def|Def::%s.%s" % (v, f)
            if verdict == "unknown":
                run.undecided("R1", key, why, F.loc(f_def["body"]))
            else:
                run.check("R1", key, verdict == "gen",
                          "the backward transfer for definitions does not make the input variables of Def::%s.%s alive (%s): a variable read only there is treated as dead and its assignment is deleted" % (v, f, why if verdict != "gen" else ""), F.loc(f_def["body"]))
        ctx = "alive_vars_computation"
        f_js = F.fn("update_jumpsite", mod=ctx)
        f_cs = F.fn("update_callsite", mod=ctx)
        f_stub = F.fn("update_call_stub", mod=ctx)
        f_cav = F.fn("compute_alive_vars", mod="dead_variable_elimination")
        table = {
            ("CBranch", "condition"): [(f_js, "jump"), (f_js, "untaken_conditional"), (f_cav, None)],
            ("BranchInd", "0"): [(f_js, "jump"), (f_cav, None)],
            ("CallInd", "target"): [(f_cs, "call"), (f_stub, "call"), (f_cav, None)],
            ("Return", "0"): [],  # exempt, see assumptions
        }
        for (v, f) in jmp_slots:
            if (v, f) not in table:
                run.violated("R1", "jmp-slot-unknown|Jmp::%s.%s" % (v, f), "Jmp::%s.%s is a new Expression slot that no liveness rule is known for" % (v, f))
                continue
            for fn, scrut_var in table[(v, f)]:
                verdict, why = gens(fn, "jmp::Jmp", v, f, scrut_var)
                key = "%s|Jmp::%s.%s%s" % (fn["name"], v, f, ("|via " + scrut_var) if scrut_var else "")
                if verdict == "unknown":
                    run.undecided("R1", key, why, F.loc(fn["body"]))
                else:
                    run.check("R1", key, verdict == "gen",
                              "%s does not make the input variables of Jmp::%s.%s%s alive (%s)" % (fn["name"], v, f, (" of `%s`" % scrut_var) if scrut_var else "", why if verdict != "gen" else ""), F.loc(fn["body"]))
        # kill before gen in the defining arms
        ms = T.find_matches(f_def["body"], adt_suffix="def::Def")
        if not ms:
            raise T.AnchorMissing("no match over Def in update_alive_vars_by_def")
        for v in defining:
            arms = T.arms_for_variant(ms[0], v)
            key = "update_alive_vars_by_def|%s|kill-before-gen" % v
            if not arms:
                run.violated("R1", key, "no arm for defining variant %s" % v)
                continue
            order = []
            for n in T.walk(arms[0]["b"]):
                if T.is_call(n, "remove"):
                    order.append("kill")
                elif T.is_call(n, ("insert", "extend", "append", "extend_from_slice")):
                    order.append("gen")
                elif n.get("k") == "Call":
                    g = F.by_path.get(n.get("r") or "") or F.by_path.get(n.get("f") or "")
                    if g is not None and g.get("dk") in ("Fn", "AssocFn") and any(T.is_call(x, ("insert", "extend", "append")) for x in T.walk_deep(F, g["body"], 1)):
                        order.append("gen")
            if "kill" not in order:
                run.violated("R1", key, "the defined variable of Def::%s is not removed from the alive set" % v, F.loc(arms[0]["b"]))
            elif "gen" in order and order.index("gen") < order.index("kill"):
                run.violated("R1", key, "Def::%s: inputs are made alive before the defined variable is killed (x = f(x) would leave x dead)" % v, F.loc(arms[0]["b"]))
            else:
                run.holds("R1", key, "order %s" % order, F.loc(arms[0]["b"]))

    run.guarded("R1", r1)

    # ------------------------------------------------------------------ R2
    def r2():
        from .lib import peval as PE
        fn = F.fn("remove_dead_var_assignments_of_block", mod="dead_variable_elimination")
        site = F.loc(fn["body"])
        loops = T.for_loops(fn["body"])
        if not loops:
            raise T.AnchorMissing("no for loop in remove_dead_var_assignments_of_block")
        node, pat, it, body = loops[0]
        sy = S.Sym(F)
        env = {}
        sy.term(fn["body"], env)
        itt = sy.ev(it, env)
        run.check("R2", "iterates-backwards", any(is_call(x, "rev") for x in S.subterms(itt)), "liveness is a backward analysis: the defs of the block must be visited in reverse order; iterable is %s" % fmt(itt), F.loc(it))
        variants = [v["name"] for v in defadt["variants"]]
        KEEP = ("push", "push_back", "push_front", "insert", "extend")

        def scenario(variant, alive):
            hits = {"def": 0, "alive": 0}

            def assume(n):
                k = n.get("k")
                ty = (F.ty(n) or "").replace("&", "").replace("mut ", "").strip()
                if ty.endswith("def::Def") and k in ("Field", "Deref", "Borrow", "Var", "Call") and k != "Var":
                    hits["def"] += 1
                    return ("enum", variant)
                if k == "Call" and n.get("n") == "contains" and n.get("a") and "Variable" in (F.ty(n["a"][0]) or "") and "Set" in (F.ty(n["a"][0]) or ""):
                    hits["alive"] += 1
                    return ("bool", alive)
                return None
            nodes = PE.Spec(F, assume=assume).reach(body, {})
            keeps = [x for x in nodes if T.is_call(x, KEEP)]
            upd = [i for i, x in enumerate(nodes) if T.is_call(x, "update_alive_vars_by_def")]
            tests = [i for i, x in enumerate(nodes) if T.is_call(x, "contains") and x.get("a") and "Variable" in (F.ty(x["a"][0]) or "")]
            exits = [x for x in nodes if x.get("k") in ("Continue", "Break", "Return")]
            return keeps, upd, tests, exits, hits

        any_keep = False
        for v in variants:
            for alive in (True, False):
                keeps, upd, tests, exits, hits = scenario(v, alive)
                if keeps:
                    any_keep = True
                key = "keep|%s|%s" % (v, "alive" if alive else "dead")
                if not hits["def"]:
                    run.undecided("R2", key, "no dispatch on the kind of definition found in the loop body", F.loc(body))
                    continue
                should_keep = not (v == "Assign" and not alive)
                if should_keep:
                    why = "a Def::%s %sis dropped; only assignments to variables that are not alive are free of observable effects (loads and stores are memory accesses)" % (v, "whose variable is alive " if v == "Assign" else "")
                    run.check("R2", key, bool(keeps), why, F.loc(body))
                else:
                    run.check("R2", key, not keeps, "an assignment to a variable that is not alive is kept: the pass removes nothing", F.loc(body))
                run.check("R2", "liveness-updated|%s|%s" % (v, "alive" if alive else "dead"), len(upd) >= 1 and not [e for e in exits], "update_alive_vars_by_def must run for every definition of the block (on every path through the loop body, no continue/break)", F.loc(body))
                if v == "Assign" and upd and tests:
                    run.check("R2", "decision-uses-liveness-after-def|%s" % ("alive" if alive else "dead"), min(tests) < min(upd), "the keep/drop decision for a def must use the alive set *after* that def (decide first, then update)", F.loc(body))
        if not any_keep:
            run.undecided("R2", "keep", "no scenario keeps a definition through push/insert/extend: the rebuilding idiom is outside the vocabulary", site)

    run.guarded("R2", r2)

    # ------------------------------------------------------------------ R3
    def closure_param_ids(c):
        ids = []
        for p in c["params"]:
            if "p" in p:
                b = T.pat_bindings(p["p"])
                ids.append([i for i, _, _ in b])
            else:
                ids.append([])
        return ids

    def analyse_arm(fn, arm, variant, label):
        """key-kill / value-kill facts of one defining arm"""
        # the local bound to the `var` field
        var_ids = set()
        for vp in SL.variant_subpatterns(arm["p"], "def::Def", variant):
            sp = T.pat_field(vp, "var")
            if sp is not None:
                for i, n, _ in T.pat_bindings(sp):
                    var_ids.add(i)
        site = F.loc(arm["b"])
        key_kill = False
        key_undec = None
        val_kill = False
        val_undec = None

        def contexts(root, vids, depth, cond):
            """(node, root of its body, ids standing for the defined variable there, reached conditionally?) -- follows calls to
            small crate-local helper functions, mapping the helper's parameters to the arguments that carry the variable"""
            for n in T.walk(root):
                yield n, root, vids, cond
                if depth < 2 and n.get("k") == "Call" and "f" in n and n.get("n") not in ("retain", "insert", "remove"):
                    tgt = n.get("r") or n.get("f")
                    g = F.by_path.get(tgt)
                    if g is not None and g.get("dk") in ("Fn", "AssocFn") and g is not fn and len(g["params"]) == len(n.get("a", [])):
                        sub = set()
                        for p_, a_ in zip(g["params"], n["a"]):
                            if p_.get("p") and any(y.get("k") in ("Var", "Upvar") and y.get("id") in vids for y in T.walk(a_)):
                                sub |= {b[0] for b in T.pat_bindings(p_["p"])}
                        if sub:
                            yield from contexts(g["body"], sub, depth + 1, cond or inside_if(root, n))
        all_var_ids = set(var_ids)
        ctxs = list(contexts(arm["b"], set(var_ids), 0, False))
        for n, root, var_ids, cond in ctxs:
            all_var_ids |= var_ids
            if T.is_call(n, ("insert", "remove")) and len(n["a"]) >= 2:
                a1 = S.Sym(F).ev(n["a"][1], {})
                if any(isinstance(x, tuple) and x and x[0] == "var" and x[2] in var_ids for x in S.subterms(a1)):
                    # insert under a condition only counts together with a key-kill retain; unconditional insert/remove kills the key
                    if not cond and not inside_if(root, n):
                        key_kill = True
            if T.is_call(n, "retain") and len(n["a"]) == 2:
                cl = T.peel(n["a"][1])
                if cl.get("k") != "Closure":
                    key_undec = val_undec = "retain predicate is not a closure literal"
                    continue
                c = F.closure_by_path(cl["d"])
                pids = closure_param_ids(c)
                # params: [env, key, value] or [env, (key,value)]
                if len(pids) < 3:
                    key_undec = val_undec = "unexpected retain closure signature"
                    continue
                kids, vids = set(pids[1]), set(pids[2])
                sy = S.Sym(F)
                body = sy.term(c["body"])
                conj = []
                def flat(t):
                    if t[0] == "and":
                        flat(t[1]); flat(t[2])
                    else:
                        conj.append(t)
                flat(S.value(body))
                conj = [inline_pred(l_) for l_ in conj]
                for lit in conj:
                    uses_k = any(isinstance(x, tuple) and x and x[0] == "var" and x[2] in kids for x in S.subterms(lit))
                    uses_v = any(isinstance(x, tuple) and x and x[0] == "var" and x[2] in vids for x in S.subterms(lit))
                    uses_var = any(isinstance(x, tuple) and x and x[0] == "var" and x[2] in var_ids for x in S.subterms(lit))
                    if uses_k and uses_var and not uses_v:
                        l = lit
                        pol = True
                        while l[0] == "not":
                            l, pol = l[1], not pol
                        if is_call(l, ("ne", "eq")) and len(l[2]) == 2:
                            keep_when_different = (l[1] == "ne") == pol
                            if keep_when_different:
                                key_kill = True
                            else:
                                key_undec = None
                                run.violated("R3", "%s|%s|key-kill-polarity" % (label, variant), "retain keeps exactly the entry keyed by the defined variable: %s" % fmt(lit), F.loc(c["body"]))
                        else:
                            key_undec = "key clause outside vocabulary: %s" % fmt(lit)
                    elif uses_v and uses_var:
                        l = lit
                        pol = True
                        while l[0] == "not":
                            l, pol = l[1], not pol
                        if is_call(l, ("any", "contains")):
                            if not pol:
                                val_kill = True
                            else:
                                run.violated("R3", "%s|%s|value-kill-polarity" % (label, variant), "retain keeps exactly the entries that mention the defined variable: %s" % fmt(lit), F.loc(c["body"]))
                        elif is_call(l, "all") and pol:
                            val_kill = True
                        else:
                            val_undec = "value clause outside vocabulary: %s" % fmt(lit)
        k1 = "%s|%s|key-kill" % (label, variant)
        if key_kill:
            run.holds("R3", k1, "", site)
        elif key_undec:
            run.undecided("R3", k1, key_undec, site)
        else:
            run.violated("R3", k1, "after `%s = ...` (Def::%s) an older entry *keyed* by the defined variable survives in the insertable-expression map (the retain predicate ignores the key and the arm neither inserts nor removes the key): a stale expression for the variable is propagated" % ("var", variant), site)
        k2 = "%s|%s|value-kill" % (label, variant)
        if val_kill:
            run.holds("R3", k2, "", site)
        elif val_undec:
            run.undecided("R3", k2, val_undec, site)
        else:
            run.violated("R3", k2, "after Def::%s entries whose expression mentions the defined variable survive" % variant, site)

    def inline_pred(lit):
        """a clause that calls a small crate-local predicate is read through its body (parameters replaced by the arguments)"""
        pol_wrap = []
        l = lit
        while l[0] == "not":
            pol_wrap.append("not")
            l = l[1]
        if is_call(l) and l[3] in F.by_path and l[1] not in ("any", "all", "contains", "eq", "ne"):
            g = F.by_path[l[3]]
            if g.get("dk") in ("Fn", "AssocFn") and len(g["params"]) == len(l[2]) and sum(1 for _ in T.walk(g["body"])) < 80:
                env = {}
                for p_, a_ in zip(g["params"], l[2]):
                    for b in T.pat_bindings(p_["p"]) if p_.get("p") else []:
                        env[b[0]] = a_
                sy2 = S.Sym(F)
                sy2.scan(g["body"])
                body = S.value(sy2.ev(g["body"], env))
                # closures of the helper keep the helper's parameter ids: note which caller terms they stand for
                for p_, a_ in zip(g["params"], l[2]):
                    for b in T.pat_bindings(p_["p"]) if p_.get("p") else []:
                        alias[b[0]] = a_
                l = body
        for _ in pol_wrap:
            l = ("not", l)
        return l
    alias = {}

    def inside_if(root, target):
        """True if target sits inside an If/Match-arm below root (conditional execution)"""
        def rec(n, cond):
            if n is target:
                return cond
            k = n.get("k")
            for c in T.children(n):
                c_cond = cond
                if k == "If" and c is not n["c"]:
                    c_cond = True
                if k == "Match" and c is not n["e"] and not (n.get("ms", "").startswith("ForLoopDesugar")):
                    c_cond = True
                r = rec(c, c_cond)
                if r is not None:
                    return r
            return None
        return bool(rec(root, False))

    def r3():
        f_ctx = F.fn("update_def", mod="analysis::expression_propagation")
        f_loc = F.fn("propagate_input_expressions", mod="analysis::expression_propagation")
        n = 0
        for label, fn in (("Context::update_def", f_ctx), ("propagate_input_expressions", f_loc)):
            ms = T.find_matches(fn["body"], adt_suffix="def::Def")
            if not ms:
                raise T.AnchorMissing("no match over Def in %s" % label)
            for v in defining:
                arms = T.arms_for_variant(ms[0], v)
                if not arms:
                    run.violated("R3", "%s|%s|has-arm" % (label, v), "no arm for %s" % v)
                    continue
                n += 1
                analyse_arm(fn, arms[0], v, label)
        run.floor("defining arms analysed", n, 2)
        # reset at calls and returns
        for name in ("update_call_stub", "update_return"):
            fn = F.fn(name, mod="analysis::expression_propagation")
            t = S.value(S.Sym(F).term(fn["body"]))
            good = t[0] == "adt" and t[2] == "Some" and is_call(dict(t[3])["0"], ("new", "default", "with_capacity")) and not S.subterms.__call__ is None
            fresh = good and not any(isinstance(x, tuple) and x and x[0] == "var" for x in S.subterms(t))
            run.check("R3", "%s|resets-map" % name, bool(fresh), "after a call nothing may be propagated (the callee may change any register): %s must return a fresh empty map; found %s" % (name, fmt(t)), F.loc(fn["body"]))
        fn = F.fn("update_call", mod="analysis::expression_propagation")
        t = S.value(S.Sym(F).term(fn["body"]))
        run.check("R3", "update_call|intraprocedural", t[0] == "adt" and t[2] == "None", "expression propagation is intraprocedural: update_call must return None; found %s" % fmt(t), F.loc(fn["body"]))
        # merge keeps only entries equal on both sides
        fn = F.fn("merge", mod="analysis::expression_propagation")
        t = S.Sym(F).term(fn["body"])
        has_filter = any(is_call(x, ("filter", "filter_map", "retain")) for x in S.subterms(t))
        unions = any(is_call(x, ("extend", "chain", "union")) for x in S.subterms(t))
        run.check("R3", "merge|intersection", has_filter and not unions, "at a join only entries present with the same expression on both sides may survive (intersection); found %s" % fmt(t)[:200], F.loc(fn["body"]))

    run.guarded("R3", r3)

    # ------------------------------------------------------------------ R4
    def r4():
        mod = "propagate_control_flow"
        f_p = F.fn("propagate_control_flow", mod=mod)
        sy = S.Sym(F)
        env = {}
        sy.term(f_p["body"], env)
        # (a) classify calls of find_target_for_retargetable_jump by the arm they are in
        ms = [m for m in T.find_matches(f_p["body"], adt_suffix="jmp::Jmp", deep=True)]
        if not ms:
            raise T.AnchorMissing("no match over Jmp in propagate_control_flow")
        m = ms[0]
        ncalls = 0
        for arm in m["arms"]:
            variants = set()
            for alt in T.pat_alternatives(arm["p"]):
                for v in ("Call", "CallInd", "CallOther", "Branch", "CBranch", "BranchInd", "Return"):
                    if any(True for _ in SL.variant_subpatterns(alt, "jmp::Jmp", v)):
                        variants.add(v)
            for c in T.walk(arm["b"]):
                if T.is_call(c, "find_target_for_retargetable_jump"):
                    ncalls += 1
                    t3 = sy.ev(c["a"][2], env)
                    if variants & {"Call", "CallInd", "CallOther"}:
                        key = "call-return-retarget-uses-no-condition|%s" % "+".join(sorted(variants))
                        free = [x for x in S.subterms(t3) if isinstance(x, tuple) and x and x[0] == "var"]
                        precond = any(is_call(x, "get_block_precondition_after_defs") for x in S.subterms(t3))
                        run.check("R4", key, not free and not precond, "the return site of a call is retargeted using known branch conditions (%s); the callee may have changed the registers the condition reads" % fmt(t3), F.loc(c))
        run.floor("find_target_for_retargetable_jump call sites", ncalls, 2)

        # (b) precondition dropped when any defining variant writes an input
        f_pre = F.fn("get_block_precondition_after_defs", mod=mod)
        # by specialisation: the block contains a Def of kind V that writes an input variable of the precondition
        # (every `contains` test on the set of input variables is true) -- can the function still only answer Some(..)?
        from .lib import peval as PE

        def pre_case(v, writes_input):
            hits = {"def": 0, "contains": 0}

            def assume(n):
                k = n.get("k")
                ty = (F.ty(n) or "").replace("&", "").replace("mut ", "").strip()
                if ty.endswith("def::Def") and k in ("Field", "Deref", "Borrow", "Call"):
                    hits["def"] += 1
                    return ("enum", v)
                if k == "Call" and n.get("n") in ("contains", "contains_key") and n.get("a") and "Variable" in (F.ty(n["a"][0]) or ""):
                    hits["contains"] += 1
                    return ("bool", writes_input)
                return None
            spec = PE.Spec(F, assume=assume, enter_closures=True, follow_calls=True)
            res, nodes = spec.results(f_pre["body"], {})
            # results of closures entered on the way do not belong to the function
            return [(id(T.peel(r)), PE.option_kind(r)) for r in res], hits

        def pre_both(v):
            with_, hits = pre_case(v, True)
            without, _h = pre_case(v, False)
            base = {i for i, k_ in without}
            diff = [k_ for i, k_ in with_ if i not in base]      # results that exist only because the Def writes an input
            keeps = any(isinstance(k_, tuple) for i, k_ in with_)  # the precondition can still be returned
            return diff, keeps, hits
        cases = {v: pre_both(v) for v in defining}
        any_contains = any(h["contains"] for d_, k_, h in cases.values())
        for v in defining:
            key = "precondition-invalidated-by|%s" % v
            diff, keeps, hits = cases[v]
            if not hits["def"] or not any_contains:
                run.undecided("R4", key, "no dispatch on the kind of definition / no membership test on the precondition's input variables found", F.loc(f_pre["body"]))
            elif "None" in diff:
                run.holds("R4", key, "", F.loc(f_pre["body"]))
            elif not diff and keeps:
                run.violated("R4", key, "a Def::%s that writes an input variable of the block precondition must invalidate it (None); the function answers the same whether or not the Def writes an input, and can still return the precondition" % v, F.loc(f_pre["body"]))
            else:
                run.undecided("R4", key, "results that depend on the write: %s" % diff, F.loc(f_pre["body"]))

        # (c) retarget_jumps only writes block-target slots
        f_rt = F.fn("retarget_jumps", mod=mod)
        tid_slots = set(SL.fields_of_type(F, "intermediate_representation::jmp::Jmp", SL.is_tid_ty)) - {("Call", "target")}
        assigned_ids = set()
        for n in T.walk(f_rt["body"]):
            if n.get("k") == "Assign":
                root, names = T.field_chain(n["l"])
                if root.get("k") in ("Var", "Upvar"):
                    assigned_ids.add(root["id"])
        written = set()
        for v, f in SL.fields_of_type(F, "intermediate_representation::jmp::Jmp", lambda t: True):
            for (lid, name, scrut, owner) in SL.slot_bindings(F, f_rt, "jmp::Jmp", v, f):
                if lid in assigned_ids:
                    written.add((v, f))
        for (v, f) in sorted(written):
            run.check("R4", "retarget_jumps|writes|Jmp::%s.%s" % (v, f), (v, f) in tid_slots, "retarget_jumps overwrites Jmp::%s.%s which is not a block-target slot" % (v, f), F.loc(f_rt["body"]))
        for (v, f) in sorted(tid_slots):
            run.check("R4", "retarget_jumps|covers|Jmp::%s.%s" % (v, f), (v, f) in written, "retarget_jumps cannot rewrite the block target Jmp::%s.%s although propagate_control_flow records retargets for such jumps (it would panic or silently skip)" % (v, f), F.loc(f_rt["body"]))

        # (d) polarity of edge conditions
        f_in = F.fn("get_precondition_from_incoming_edges", mod=mod)
        ms = T.find_matches(f_in["body"], adt_suffix="graph::Edge")
        if not ms:
            raise T.AnchorMissing("no match over Edge in get_precondition_from_incoming_edges")
        for arm in ms[0]["arms"]:
            alts = T.pat_alternatives(arm["p"])
            for alt in alts:
                if alt.get("k") != "Variant" or alt["v"] != "Jump":
                    continue
                sub1 = T.pat_field(alt, "1")
                untaken = sub1 is not None and any(True for _ in SL.variant_subpatterns(sub1, "option::Option", "Some"))
                t = S.Sym(F).scan(f_in["body"]).ev(arm["b"], {})
                negated = any(is_call(x, "negate_condition") for x in S.subterms(t))
                key = "incoming-edge-polarity|%s" % ("else-edge" if untaken else "taken-edge")
                run.check("R4", key, negated == untaken, "on the %s of a conditional jump the condition is known to be %s; the arm yields %s" % (
                    "fall-through (else) edge" if untaken else "taken edge", "false (negated)" if untaken else "true", fmt(t)), F.loc(arm["b"]))

        # (e) blocks with defs are never bypassed + polarity in check_for_retargetable_block
        f_chk = F.fn("check_for_retargetable_block", mod=mod)
        t = S.Sym(F).term(f_chk["body"])
        guard_ok = False
        if t[0] == "seq":
            for st in t[1]:
                if st[0] == "ite":
                    c = st[1]
                    if c[0] == "not" and is_call(c[1], "is_empty") and c[1][2][0][0] == "field" and c[1][2][0][2] == "defs":
                        rets = [x for x in S.subterms(st[2]) if isinstance(x, tuple) and x and x[0] == "return" and x[1][0] == "adt" and x[1][2] == "None"]
                        guard_ok = bool(rets)
                    elif is_call(c, "is_empty"):
                        guard_ok = False
                        break
        run.check("R4", "bypass-only-empty-blocks", guard_ok, "a block that contains definitions must never be bypassed: check_for_retargetable_block must return None first when defs is non-empty", F.loc(f_chk["body"]))
        # polarity inside the find_map closure
        def slot_ids(fn, v, f):
            return {lid for (lid, name, scrut, owner) in SL.slot_bindings(F, fn, "jmp::Jmp", v, f)}

        def var_in(t, ids):
            t = S.value(t)
            if t[0] == "var":
                return t[2] in ids
            if t[0] == "field":
                want = "CBranch.target" if ids is if_ids else "Branch.0"
                return t[2] == want
            return False

        if_ids, else_ids = slot_ids(f_chk, "CBranch", "target"), slot_ids(f_chk, "Branch", "0")
        found = 0
        for c in F.closures(f_chk):
            ct = S.value(S.Sym(F).term(c["body"]))

            def walk_ite(x):
                nonlocal found
                if x[0] != "ite":
                    return
                cond = x[1]
                res = S.value(x[2])
                if cond[0] == "call" and cond[1] == "eq" and res[0] == "adt" and res[2] == "Some":
                    neg = any(is_call(y, "negate_condition") for y in S.subterms(cond))
                    tgt = dict(res[3])["0"]
                    is_if, is_else = var_in(tgt, if_ids), var_in(tgt, else_ids)
                    if is_if or is_else:
                        found += 1
                        run.check("R4", "known-condition-selects|%s" % ("else" if neg else "if"), (is_if and not neg) or (is_else and neg),
                                  "a conditional whose condition is known to be %s must continue at its %s target; found %s" % ("false" if neg else "true", "else" if neg else "if", fmt(tgt)), F.loc(c["body"]))
                walk_ite(S.value(x[3]))
            walk_ite(ct)
        if found < 2:
            run.undecided("R4", "known-condition-selects", "shape of the target selection changed", F.loc(f_chk["body"]))

        # (f) the two-jump arm: if-target searched under `condition`, else-target under its negation
        if_ids, else_ids = slot_ids(f_p, "CBranch", "target"), slot_ids(f_p, "Branch", "0")
        for arm in m["arms"]:
            if not any(True for alt in T.pat_alternatives(arm["p"]) for _ in SL.variant_subpatterns(alt, "jmp::Jmp", "CBranch")):
                continue
            at = sy.ev(arm["b"], env)
            seqs = at[1] + (at[2],) if at[0] == "seq" else (at,)
            state = []  # what is on top of true_conditions
            top = None
            for st in seqs:
                for x in S.subterms(st):
                    if is_call(x, "push") and len(x[2]) == 2:
                        top = "neg" if any(is_call(y, "negate_condition") for y in S.subterms(x[2][1])) else "pos"
                    if is_call(x, "find_target_for_retargetable_jump"):
                        tgt = x[2][0]
                        which = "if" if var_in(tgt, if_ids) else "else" if var_in(tgt, else_ids) else None
                        if which and (which, top) not in state:
                            state.append((which, top))
            want = [("if", "pos"), ("else", "neg")]
            if sorted(state) == sorted(want):
                run.holds("R4", "two-jump-arm|condition-polarity", str(state), F.loc(arm["b"]))
            elif len(state) == 2 and all(w in ("if", "else") for w, _ in state) and all(t in ("pos", "neg") for _, t in state):
                run.violated("R4", "two-jump-arm|condition-polarity", "the if-target must be searched knowing the condition, the else-target knowing its negation; found %s" % state, F.loc(arm["b"]))
            else:
                run.undecided("R4", "two-jump-arm|condition-polarity", "shape changed: %s" % state, F.loc(arm["b"]))

    run.guarded("R4", r4)
