"""C18 Constant-argument checkers decide on the argument's actual value -- decision predicate.

 R1 exact predicate: is_chmod_style_arg is normalised to the set of integers it accepts
    (constants resolved through the statics) and must equal {x | x > 0o177} \\ {0o777};
    CWE467 compares a parameter's value for equality with the pointer size and is an `any`
    over all parameters
 R2 the value is the block-local one: a fresh state per call block is fed every Def of the
    block in order (exhaustive match, argument positions), the parameter is evaluated on
    that state, and a warning needs a single concrete value (otherwise a log message)
"""
from .lib import slots as SL
from .lib import sym as S
from .lib import thir as T
from .lib.sym import fmt

U64 = (1 << 64) - 1


def is_call(t, name=None):
    return isinstance(t, tuple) and t and t[0] == "call" and (name is None or t[1] == name or (isinstance(name, (set, tuple, frozenset)) and t[1] in name))


# ---- interval sets over [0, 2^64-1]
def norm_iv(ivs):
    ivs = sorted((max(0, a), min(U64, b)) for a, b in ivs if a <= b)
    out = []
    for a, b in ivs:
        if out and a <= out[-1][1] + 1:
            out[-1] = (out[-1][0], max(out[-1][1], b))
        else:
            out.append((a, b))
    return out


def inter(x, y):
    out = []
    for a, b in x:
        for c, d in y:
            lo, hi = max(a, c), min(b, d)
            if lo <= hi:
                out.append((lo, hi))
    return norm_iv(out)


def compl(x):
    out = []
    cur = 0
    for a, b in norm_iv(x):
        if a > cur:
            out.append((cur, a - 1))
        cur = b + 1
    if cur <= U64:
        out.append((cur, U64))
    return out


def run(run):
    F = run.facts()
    run.explanation = (
        "Static predicate analysis of the constant-argument checkers: the boolean body of is_chmod_style_arg is evaluated symbolically "
        "to the exact set of 64-bit integers it accepts (a union of intervals; the statics are resolved to the literals in their "
        "initialisers) and compared with the set in the property statement, so that equivalent spellings (>= 0o200, !(x <= 127)) pass; "
        "the block-local evaluation is checked for a fresh state, a complete in-order replay of the block's definitions with the "
        "argument positions of each Def variant, and a warning only under a single concrete value. Decides the decision predicate and "
        "the replay shape, not that the replay computes the right constant.")
    run.rule("R1", "the accepted argument set equals {x > 0o177} minus {0o777}; CWE467: equality with the pointer size, any parameter")
    run.rule("R2", "fresh block-local state, every Def replayed in order with the right operands, warning only for a concrete value")

    def static_value(path):
        for f in F.fns:
            if f["path"] == path and f["dk"].startswith(("Static", "Const")):
                t = S.value(S.Sym(F).term(f["body"]))
                if t[0] == "lit" and isinstance(t[1], int):
                    return t[1]
        return None

    class Unknown(Exception):
        pass

    def const_of(t):
        t = S.value(t)
        if t[0] == "lit" and isinstance(t[1], int) and not isinstance(t[1], bool):
            return t[1]
        if t[0] == "const":
            v = static_value(t[1])
            if v is not None:
                return v
        if t[0] == "bin" and t[1] in ("Add", "Sub"):
            a, b = const_of(t[2]), const_of(t[3])
            if a is not None and b is not None:
                return a + b if t[1] == "Add" else a - b
        return None

    LIMIT = 1 << 20
    masked = []

    def subject(l, var):
        """None | ('id',) | ('mod', m): l is the variable itself or the variable reduced modulo m (x & (2^k-1), x % m)"""
        l = S.value(l)
        while l[0] == "cast":
            l = S.value(l[1])
        if l == var:
            return ("id",)
        if l[0] == "bin" and l[1] in ("BitAnd", "Rem"):
            a, b = S.value(l[2]), S.value(l[3])
            if l[1] == "BitAnd" and const_of(a) is not None and b == var:
                a, b = b, a
            if a == var and const_of(b) is not None:
                c = const_of(b)
                if l[1] == "Rem" and c > 0:
                    return ("mod", c)
                if l[1] == "BitAnd" and c >= 0 and (c & (c + 1)) == 0:
                    return ("mod", c + 1)
        return None

    def sat(t, var):
        """interval set of values of `var` satisfying boolean term t"""
        t = S.value(t)
        if t[0] == "seq":
            # `let arg = arg & MASK; pred(arg)`: immutable shadowing is inlined by the normaliser; a seq here means effects
            t = S.value(t[2])
        if t[0] == "and":
            return inter(sat(t[1], var), sat(t[2], var))
        if t[0] == "or":
            return norm_iv(sat(t[1], var) + sat(t[2], var))
        if t[0] == "not":
            return compl(sat(t[1], var))
        if t[0] == "lit" and isinstance(t[1], bool):
            return [(0, U64)] if t[1] else []
        if t[0] == "bin" and t[1] in ("Gt", "Ge", "Lt", "Le", "Eq", "Ne"):
            op, l, r = t[1], t[2], t[3]
            if S.value(r) == var and const_of(l) is not None:
                l, r = r, l
                op = {"Gt": "Lt", "Lt": "Gt", "Ge": "Le", "Le": "Ge"}.get(op, op)
            if subject(r, var) and const_of(l) is not None and not subject(l, var):
                l, r = r, l
                op = {"Gt": "Lt", "Lt": "Gt", "Ge": "Le", "Le": "Ge"}.get(op, op)
            sj = subject(l, var)
            if sj and const_of(r) is not None:
                c = const_of(r)
                base = norm_iv({"Gt": [(c + 1, U64)], "Ge": [(c, U64)], "Lt": [(0, c - 1)], "Le": [(0, c)], "Eq": [(c, c)], "Ne": [(0, c - 1), (c + 1, U64)]}[op])
                if sj[0] == "id":
                    return base
                # the verdict is taken on `x mod m`: the accepted set is periodic; expanded over a bounded universe
                m = sj[1]
                masked.append(m)
                if m < 2 or LIMIT // m > 4096:
                    raise Unknown(fmt(t))
                res = inter(base, [(0, m - 1)])
                out = []
                q = 0
                while q * m < LIMIT:
                    out.extend((q * m + a, q * m + b) for a, b in res)
                    q += 1
                return inter(norm_iv(out), [(0, LIMIT - 1)])
        if is_call(t, ("eq", "ne")) and len(t[2]) == 2:
            return sat(("bin", "Eq" if t[1] == "eq" else "Ne", t[2][0], t[2][1]), var)
        if t[0] == "match":
            # matches!(arg, A | B) style is not used; give up
            raise Unknown(fmt(t))
        raise Unknown(fmt(t))

    def r1():
        f = F.fn("is_chmod_style_arg", mod="checkers::cwe_560")
        t = S.Sym(F).term(f["body"])
        pid = None
        for p in f["params"]:
            if "p" in p:
                b = T.pat_bindings(p["p"])
                if b:
                    pid = ("var", b[0][1], b[0][0])
        site = F.loc(f["body"])
        want = norm_iv([(0o200, 0o776), (0o1000, U64)])
        try:
            got = sat(t, pid)
            if masked:
                # sets are only known below LIMIT; a difference there is a difference, equality there decides nothing
                uni = [(0, LIMIT - 1)]
                g2, w2 = inter(got, uni), inter(want, uni)
                if g2 != w2:
                    diff = norm_iv(inter(w2, compl(g2)) + inter(g2, compl(w2)))
                    wit = diff[0][0]
                    run.violated("R1", "umask|accepted-set", "the verdict is taken on the argument reduced modulo %s, not on its actual value: e.g. the argument %s is %s although the property says the opposite (warn exactly for values > 0o177 that differ from 0o777)" % (oct(masked[0]), oct(wit), "not reported" if inter([(wit, wit)], w2) else "reported"), site)
                else:
                    run.undecided("R1", "umask|accepted-set", "the predicate reduces the argument modulo %s; equal to the specification below 2^20 only" % oct(masked[0]), site)
            elif got == want:
                run.holds("R1", "umask|accepted-set", "accepted set = [0o200, 0o776] U [0o1000, 2^64-1]", site)
            else:
                def show(iv):
                    return " U ".join("[%s, %s]" % (oct(a), "2^64-1" if b == U64 else oct(b)) for a, b in iv) or "{}"
                run.violated("R1", "umask|accepted-set", "the umask check must warn exactly for arguments > 0o177 that differ from 0o777, i.e. %s; is_chmod_style_arg accepts %s" % (show(want), show(got)), site)
        except Unknown as e:
            run.undecided("R1", "umask|accepted-set", "predicate outside the integer vocabulary: %s" % e, site)
        # the statics are what the names say (they are part of the statement)
        # the decision uses the predicate on the evaluated argument
        f = F.fn("check_cwe", mod="checkers::cwe_560")
        sy = S.Sym(F)
        env = {}
        sy.term(f["body"], env)
        from .lib import bindsrc as B
        pushes = [(n, c) for n, c in T.paths_to(f["body"], lambda x: T.is_call(x, ("push", "extend", "insert"))) if any(T.is_call(y, "generate_cwe_warning") for y in T.walk(n))]
        key = "umask|warn-iff-predicate-on-computed-value"
        msg = "a umask warning must be emitted exactly when the argument value computed for the call block satisfies the predicate"
        key0 = key
        if not pushes:
            run.undecided("R1", key, "no site that stores a generated warning found", F.loc(f["body"]))
        for i_, (n, conds) in enumerate(pushes):
            key = key0 if i_ == 0 else "%s|site%d" % (key0, i_)
            roots = B.bodies(F, f)
            pred_ok, extra = False, []
            for cd in conds:
                if cd[0] == "arm" and (cd[1].get("ms", "").startswith("ForLoop") or T.is_call(T.peel(cd[1]["e"]), "next")):
                    continue
                e = cd[1] if cd[0] in ("if",) else (cd[1]["e"] if cd[0] == "arm" else cd[1].get("i"))
                if e is None:
                    continue
                pe = T.peel(e)
                if cd[0] == "if" and T.is_call(pe, "is_chmod_style_arg"):
                    from_arg = any(T.is_call(y, "get_umask_permission_arg") for src, how in B.sources(F, roots, pe["a"][0]) for y in T.walk(src))
                    if cd[2] is True and from_arg:
                        pred_ok = True
                    else:
                        extra.append("predicate negated or not applied to the computed argument")
                    continue
                if any(T.is_call(y, "get_umask_permission_arg") for src, how in B.sources(F, roots, e) for y in T.walk(src)):
                    continue        # taking the Result apart (Ok arm / let-else / if-let)
                pol = cd[2] if cd[0] == "if" else None
                while pe.get("k") == "Unary" and pe.get("o") == "Not" and pol is not None:
                    pe, pol = T.peel(pe["e"]), not pol
                if T.is_call(pe, "is_empty") and pol is False:
                    continue        # nothing to check without a umask symbol
                extra.append(T.show(e, F)[:60])
            if not pred_ok:
                run.violated("R1", key, msg + " (the warning is not guarded by is_chmod_style_arg(<value from get_umask_permission_arg>); %s)" % extra, F.loc(n))
            elif extra:
                run.undecided("R1", key, "further conditions on the warning: %s" % extra, F.loc(n))
            else:
                run.holds("R1", key, "", F.loc(n))
        # CWE467
        from .lib import mayflow as MF
        from .lib import iterctx as IC
        f = F.fn("check_for_pointer_sized_arg", mod="checkers::cwe_467")
        site = F.loc(f["body"])
        deep = list(T.walk_deep(F, f["body"], 2))
        # values derived from the evaluated parameter, and values derived from the pointer size
        mf_val = MF.MayFlow(F, seed=lambda y: T.is_call(y, "eval_parameter_arg"))
        mf_val.run(f, set())
        mf_ptr = MF.MayFlow(F, seed=lambda y: y.get("k") == "Field" and y.get("fn") == "size" and any(z.get("k") == "Field" and z.get("fn") == "stack_pointer_register" for z in T.walk(y)))
        mf_ptr.run(f, set())

        def side(e):
            v = any(mf_val.mentions(e, ids) for ids in mf_val.reached.values())
            p_ = any(mf_ptr.mentions(e, ids) for ids in mf_ptr.reached.values())
            return v, p_
        cmps = []
        for x in deep:
            if (x.get("k") == "Binary" and x.get("o") in ("Eq", "Ne", "Lt", "Le", "Gt", "Ge")) or T.is_call(x, ("eq", "ne", "lt", "le", "gt", "ge")):
                a, b = (x["l"], x["r"]) if x.get("k") == "Binary" else (x["a"][0], x["a"][1]) if len(x.get("a", [])) == 2 else (None, None)
                if a is None:
                    continue
                op = (x.get("o") or x.get("n")).lower()
                (va, pa), (vb, pb) = side(a), side(b)
                if (va and not pa) or (vb and not pb):
                    other_is_ptr = (pb if va and not pa else pa)
                    cmps.append((op, other_is_ptr, x))
        good = [c for c in cmps if c[0] == "eq" and c[1]]
        bad = [c for c in cmps if not (c[0] == "eq" and c[1])]
        key = "sizeof|equals-pointer-size"
        msg = "the sizeof-on-pointer check must compare the parameter's value for EQUALITY with the size of the stack pointer register (the pointer size of the analysed CPU), not a fixed number"
        if bad:
            run.violated("R1", key, msg + "; found `%s`" % T.show(bad[0][2], F)[:100], F.loc(bad[0][2]))
        elif good:
            run.holds("R1", key, "", F.loc(good[0][2]))
        else:
            run.undecided("R1", key, "no comparison of an evaluated parameter found", site)
        # SOME parameter: an `any` over the parameters, or a loop that returns true on the first hit and false afterwards
        key = "sizeof|any-parameter"
        msg = "the check must hold if SOME parameter equals the pointer size: all parameters are examined, true on a hit, false otherwise"
        if not good:
            run.undecided("R1", key, "comparison not found", site)
        else:
            eqn = good[0][2]
            ctx = IC.contexts(F, f, eqn)
            fields, adapt = IC.summary(F, f, ctx)
            cut = [a for a in adapt if a in ("take", "skip", "step_by", "take_while", "skip_while", "nth", "last", "first", "find", "position", "peekable")]
            own, chain = IC.owner(F, f, eqn)
            in_any = False
            b_ = own
            while b_ is not None and b_.get("dk") == "Closure":
                parent = F.by_path.get(b_.get("parent"))
                if parent is None:
                    break
                for y in T.walk(parent["body"]):
                    if T.is_call(y, ("any",)) and any(T.peel(a).get("k") == "Closure" and T.peel(a).get("d") == b_["path"] for a in y.get("a", [])):
                        in_any = True
                    if T.is_call(y, ("all", "find", "position")) and any(T.peel(a).get("k") == "Closure" and T.peel(a).get("d") == b_["path"] for a in y.get("a", [])):
                        in_any = in_any or None
                b_ = parent
            sy = S.Sym(F)
            env = {}
            t = sy.term(f["body"], env)
            rets = T.paths_to(f["body"], lambda x: x.get("k") == "Return" and x.get("ds") not in ("QuestionMark",))
            loop_rets = [sy.ev(n["e"], env) for n, _ in rets if "e" in n]
            tail = S.value(t)
            loop_form = bool(T.for_loops(f["body"])) and tail == ("lit", False) and bool(loop_rets) and all(r == ("lit", True) for r in loop_rets)
            if "parameters" not in fields:
                run.undecided("R1", key, "the comparison does not run in an iteration over the symbol's parameters", site)
            elif cut:
                run.violated("R1", key, msg + "; the iteration is cut by %s" % cut, site)
            elif in_any is True or loop_form:
                run.holds("R1", key, "", site)
            elif T.for_loops(f["body"]) and loop_rets and not loop_form:
                run.violated("R1", key, msg + "; the loop returns %s and ends with %s" % ([fmt(r) for r in loop_rets][:3], fmt(tail)), site)
            else:
                run.undecided("R1", key, "how the per-parameter results are combined is not recognised", site)

    run.guarded("R1", r1)

    def replay_ok(fn, label):
        sy = S.Sym(F)
        env = {}
        t = sy.term(fn["body"], env)
        site = F.loc(fn["body"])
        news = [x for x in S.subterms(t) if is_call(x, "new") and "pointer_inference::state::State" in x[3]]
        run.check("R2", "%s|fresh-state" % label, len(news) == 1 and not any(isinstance(y, tuple) and y and y[0] == "var" and y[1] not in ("project", "block") for y in S.subterms(news[0])) if news else False,
                  "the argument must be computed from a FRESH state for the call block (no state carried over from elsewhere)", site)
        from .lib import iterctx as IC
        ms = [x for x in T.walk_deep(F, fn["body"], 2) if x.get("k") == "Match" and T.find_matches(x, adt_suffix="def::Def") and T.find_matches(x, adt_suffix="def::Def")[0] is x]
        if not ms:
            run.violated("R2", "%s|replays-all-defs" % label, "the definitions of the call block are no longer replayed (no dispatch over Def in %s or its helpers)" % fn["name"], site)
            return
        m = ms[0]
        ctx = IC.contexts(F, fn, m)
        own, chain = IC.owner(F, fn, m)
        fields, bad = IC.summary(F, fn, ctx)
        if "defs" not in fields:
            run.violated("R2", "%s|replays-all-defs" % label, "the definitions of the call block are no longer replayed (the Def dispatch does not run in an iteration over `defs`)", site)
            return
        # early exits: in the loop body / closure body that holds the dispatch (or the call of the helper that holds it)
        holder = chain[0] if chain else m
        hb, _ = IC.owner(F, fn, holder)
        exits = []
        loops_ = [fl for fl in T.for_loops(hb["body"]) if any(x is holder for x in T.walk(fl[3]))]
        scope = loops_[-1][3] if loops_ else hb["body"]
        exits = [x for x in T.walk(scope) if x.get("k") in ("Break", "Continue", "Return") and x.get("ds") not in ("ForLoop", "WhileLoop")]
        if chain:
            exits += [x for x in T.walk(own["body"]) if x.get("k") == "Return" and any(y is m for y in T.walk(own["body"])) and not any(y is x for y in T.walk(m))]
        run.check("R2", "%s|replays-all-defs-in-order" % label, not bad and not exits, "every definition of the block must be replayed in program order (adaptors %s, early exits %d)" % (bad, len(exits)), F.loc(m))
        wild = any(T.WILD in T.pat_variant_names(a["p"]) for a in m["arms"])
        run.check("R2", "%s|def-table|exhaustive" % label, not wild, "the replay must handle every kind of definition explicitly (no wildcard arm)", F.loc(m))
        node = m
        want = {"Assign": ("handle_register_assign", ["var", "value"]), "Load": ("handle_load", ["var", "address"]), "Store": ("handle_store", ["address", "value"])}
        for v, (callee, slots) in want.items():
            arms = T.arms_for_variant(m, v)
            ok = False
            if arms:
                for c in T.calls(arms[0]["b"], name=callee):
                    ids = []
                    for sl in slots:
                        b = SL.variant_subpatterns(arms[0]["p"], "def::Def", v)
                        bid = None
                        for vp in b:
                            sp = T.pat_field(vp, sl)
                            if sp is not None and T.pat_bindings(sp):
                                bid = T.pat_bindings(sp)[0][0]
                        ids.append(bid)
                    ok = [T.var_id(a) for a in c["a"][1:1 + len(slots)]] == ids and None not in ids
            run.check("R2", "%s|def-table|%s" % (label, v), ok, "Def::%s must be replayed with %s(%s)" % (v, callee, ", ".join(slots)), F.loc(m))

    def r2():
        f560 = F.fn("get_umask_permission_arg", mod="checkers::cwe_560")
        replay_ok(f560, "umask")
        sy = S.Sym(F)
        env = {}
        t = sy.term(f560["body"], env)
        # the result: Ok(value) only under try_to_bitvec Ok; evaluated on the replayed state
        evs = [x for x in S.subterms(t) if is_call(x, "eval_parameter_arg")]
        ok = bool(evs) and evs[0][2][0][0] == "var" and evs[0][2][0][1] == "state" and any(is_call(y, "get_unique_parameter") for y in S.subterms(evs[0][2][1]))
        run.check("R2", "umask|parameter-on-replayed-state", ok, "the umask parameter (the symbol's unique parameter) must be evaluated on the replayed block state", F.loc(f560["body"]))
        from .lib import peval as PE

        def concrete_case(ok_):
            hits = {"n": 0}

            def assume(n):
                if n.get("k") == "Call" and n.get("n") == "try_to_bitvec":
                    hits["n"] += 1
                    return ("enum", "Ok" if ok_ else "Err")
                return None
            res, nodes = PE.Spec(F, assume=assume).results(f560["body"], {})
            return [PE.result_kind(r) for r in res], hits["n"]
        kinds_err, h = concrete_case(False)
        key = "umask|single-concrete-value-else-error"
        msg = "a value is returned only if the parameter evaluates to ONE concrete bitvector; otherwise an error (which becomes a log message, never a warning)"
        if not h:
            run.violated("R2", key, msg + " -- the value is never required to be a single bitvector (no try_to_bitvec)", F.loc(f560["body"]))
        elif "Ok" in kinds_err:
            run.violated("R2", key, msg + " -- a value is returned although try_to_bitvec failed", F.loc(f560["body"]))
        elif None in kinds_err or not kinds_err:
            run.undecided("R2", key, "results %s" % kinds_err, F.loc(f560["body"]))
        else:
            run.holds("R2", key, "", F.loc(f560["body"]))
        f = F.fn("check_cwe", mod="checkers::cwe_560")
        sy = S.Sym(F)
        env = {}
        sy.term(f["body"], env)
        logs = [(n, c) for n, c in T.paths_to(f["body"], lambda x: T.is_call(x, "push")) if T.show(n["a"][0]).endswith("log_messages")]
        ok = bool(logs) and all(any(cd[0] == "arm" and T.pat_variant_names(cd[2]["p"]) == {"Err"} for cd in c) for n, c in logs)
        run.check("R2", "umask|unknown-value-is-logged-not-warned", ok, "an undeterminable umask argument must produce a log message in the Err arm", F.loc(f["body"]))
        f467 = F.fn("compute_block_end_state", mod="checkers::cwe_467")
        replay_ok(f467, "sizeof")
        f = F.fn("check_for_pointer_sized_arg", mod="checkers::cwe_467")
        from .lib import mayflow as MF
        deep = list(T.walk_deep(F, f["body"], 2))
        evs = [x for x in deep if T.is_call(x, "eval_parameter_arg")]
        mf_st = MF.MayFlow(F, seed=lambda y: T.is_call(y, "compute_block_end_state"))
        mf_st.run(f, set())
        on_state = [x for x in evs if x.get("a") and any(mf_st.mentions(x["a"][0], ids) for ids in mf_st.reached.values())]
        if not evs:
            run.undecided("R2", "sizeof|parameter-on-replayed-state", "no eval_parameter_arg call found", F.loc(f["body"]))
        else:
            run.check("R2", "sizeof|parameter-on-replayed-state", len(on_state) == len(evs), "parameters must be evaluated on the block-end state computed for the call block", F.loc(f["body"]))
        conc = any(T.is_call(x, "try_to_bitvec") for x in deep)
        run.check("R2", "sizeof|single-concrete-value", conc, "only a single concrete parameter value can equal the pointer size (try_to_bitvec)", F.loc(f["body"]))

    run.guarded("R2", r2)
