"""C08 The CFG represents exactly the program's control flow -- edge tables.

 R1 variant -> edge kinds: which Edge variants GraphBuilder constructs for each Jmp variant
    (and under which conditions), for call/return linkage and for blocks
 R2 no other edges: only GraphBuilder methods add nodes/edges to a CFG
 R3 untaken-conditional marking reaches Edge::Jump unchanged
 R4 completeness loops and build order; one node pair per (block, sub)
 R2+ (added after seed C08c) every insertion into GraphBuilder.extern_subs takes its key from program.extern_symbols
"""
from .lib import slots as SL
from .lib import sym as S
from .lib import thir as T
from .lib.sym import fmt


def is_call(t, name=None):
    return isinstance(t, tuple) and t and t[0] == "call" and (name is None or t[1] == name or (isinstance(name, (set, tuple, frozenset)) and t[1] in name))


def stmts_of(t):
    return list(t[1]) + [t[2]] if t[0] == "seq" else [t]


SPEC = {
    "Branch": {"Jump"}, "CBranch": {"Jump"}, "BranchInd": {"Jump"},
    "Call": {"ExternCallStub", "CallCombine", "Call"}, "CallInd": {"ExternCallStub"},
    "CallOther": set(), "Return": set(),
}


def run(run):
    F = run.facts()
    run.explanation = (
        "Static edge-table analysis of analysis::graph::GraphBuilder: for each arm of the match over Jmp the set of Edge variants "
        "constructed (directly or through builder methods it calls, resolved by the compiler) is compared with the specification in the "
        "property, together with the path conditions under which call/stub edges are built; the untaken-conditional argument is traced "
        "from add_outgoing_edges to the Edge::Jump constructor; every add_node/add_edge call on a CFG-typed graph crate-wide is "
        "attributed to its enclosing function; loops and build order are checked on the normalised statement sequences. Decides the "
        "edge tables, not the edge multiset of a concrete program.")
    run.rule("R1", "edge kinds constructed per Jmp variant / for call-return linkage / per block, with their conditions")
    run.rule("R2", "only GraphBuilder adds nodes or edges to a control flow graph")
    run.rule("R3", "the if-jump is passed as untaken conditional with the else-jump and reaches Edge::Jump unchanged")
    run.rule("R4", "all blocks / all return sites / whole worklist visited; build order; add_block only on a lookup miss")

    gb_fns = {f["name"]: f for f in F.fns if f.get("impl_adt", "").endswith("analysis::graph::GraphBuilder") and f["dk"] != "Closure"}
    run.floor("GraphBuilder methods", len(gb_fns), 6)

    def direct_edges(fn):
        return [n for n in T.walk_fn(F, fn) if n.get("k") == "Adt" and n["adt"].endswith("analysis::graph::Edge")] + \
               [n for n in T.walk_fn(F, fn) if n.get("k") == "Call" and n.get("f", "").startswith("analysis::graph::Edge::")]

    def edge_name(n):
        return n["v"] if n.get("k") == "Adt" else n["f"].split("::")[-1]

    memo = {}

    def edge_kinds_of(fn, depth=0):
        if fn["name"] in memo:
            return memo[fn["name"]]
        memo[fn["name"]] = set()
        ks = {edge_name(n) for n in direct_edges(fn)}
        for c in T.calls_fn(F, fn):
            if c["n"] in gb_fns and c["n"] not in (fn["name"], "add_block") and depth < 4 and "GraphBuilder" in c["f"]:
                ks |= edge_kinds_of(gb_fns[c["n"]], depth + 1)
        memo[fn["name"]] = ks
        return ks

    def kinds_in(node):
        ks = set()
        for n in T.walk(node):
            if (n.get("k") == "Adt" and n["adt"].endswith("analysis::graph::Edge")) or (n.get("k") == "Call" and n.get("f", "").startswith("analysis::graph::Edge::")):
                ks.add(edge_name(n))
            if n.get("k") == "Call" and n.get("n") in gb_fns and n["n"] != "add_block" and "GraphBuilder" in n.get("f", ""):
                # add_block (lazy creation of a missing (block, sub) node pair) is covered by the block rules
                ks |= edge_kinds_of(gb_fns[n["n"]])
        return ks

    def r1():
        fn = gb_fns.get("add_jump_edge")
        if fn is None:
            raise T.AnchorMissing("GraphBuilder::add_jump_edge")
        ms = T.find_matches(fn["body"], adt_suffix="jmp::Jmp")
        if not ms:
            raise T.AnchorMissing("no match over Jmp in add_jump_edge")
        m = ms[0]
        jmp = F.adt("intermediate_representation::jmp::Jmp")
        sy = S.Sym(F)
        env = {}
        sy.term(fn["body"], env)
        for v in F.variants(jmp):
            arms = T.arms_for_variant(m, v)
            if v not in SPEC:
                run.violated("R1", "jmp|%s" % v, "Jmp::%s is a new kind of jump with no edge specification" % v, F.loc(m))
                continue
            if not arms:
                run.violated("R1", "jmp|%s" % v, "no arm for Jmp::%s" % v, F.loc(m))
                continue
            ks = kinds_in(arms[0]["b"])
            run.check("R1", "jmp|%s|edge-kinds" % v, ks == SPEC[v], "for Jmp::%s the graph builder must create edges of kind %s; it creates %s" % (v, sorted(SPEC[v]) or "none (dead end / handled elsewhere)", sorted(ks) or "none"), F.loc(arms[0]["b"]))
        # conditions in the Call arm
        arm = T.arms_for_variant(m, "Call")[0]

        def conds_of(pred):
            out = []
            for n, conds in T.paths_to(arm["b"], pred):
                cs = []
                for cd in conds:
                    if cd[0] == "if":
                        cs.append((sy.ev(cd[1], env), cd[2]))
                    elif cd[0] == "letelse" and "i" in cd[1]:
                        # `let Some(x) = e else { return }` guards the rest of the block like `if let Some(x) = e`
                        cs.append((("let", T.show_pat(cd[1]["p"]), sy.ev(cd[1]["i"], env)), cd[2]))
                out.append((n, cs))
            return out

        def has(cs, test, pol):
            return any(test(c) and p == pol for c, p in cs)

        is_extern = lambda c: is_call(c, "contains") and any(isinstance(y, tuple) and y and y[0] == "field" and y[2] == "extern_subs" for y in S.subterms(c))
        ret_some = lambda c: c[0] == "let" and c[1].startswith("Some") and (any(is_call(y, ("get", "add_block")) for y in S.subterms(c[2])) or any(isinstance(y, tuple) and y and y[0] == "field" and y[2].endswith("return_") for y in S.subterms(c[2])) or c[2][0] == "ite")
        tgt_some = lambda c: c[0] == "let" and c[1].startswith("Some") and is_call(S.value(c[2]), "get") and any(isinstance(y, tuple) and y and y[0] == "field" and y[2] == "call_targets" for y in S.subterms(c[2]))
        for n, cs in conds_of(lambda x: (x.get("k") == "Adt" and x["adt"].endswith("graph::Edge") and x["v"] == "ExternCallStub") or (x.get("k") == "Call" and x.get("f", "").endswith("Edge::ExternCallStub"))):
            run.check("R1", "call|extern-stub-iff-extern-and-returns", has(cs, is_extern, True) and has(cs, ret_some, True), "a stub edge for a direct call must be built exactly for calls to extern symbols that have a return target; conditions: %s" % [(fmt(c)[:60], p) for c, p in cs], F.loc(n))
        for kind in ("CallCombine", "Call"):
            for n, cs in conds_of(lambda x, kind=kind: (x.get("k") == "Adt" and x["adt"].endswith("graph::Edge") and x["v"] == kind) or (x.get("k") == "Call" and x.get("f", "").endswith("Edge::" + kind))):
                run.check("R1", "call|%s-iff-internal-target-known" % kind, has(cs, is_extern, False) and has(cs, tgt_some, True), "%s edges must be built for calls to internal functions whose entry node is known; conditions: %s" % (kind, [(fmt(c)[:60], p) for c, p in cs]), F.loc(n))
        recs = conds_of(lambda x: T.is_call(x, ("entry", "insert")) and x["a"] and T.self_field(x["a"][0]) == "return_addresses")
        is_rec = lambda x: T.is_call(x, ("entry", "insert")) and x["a"] and T.self_field(x["a"][0]) == "return_addresses"
        if not recs and any(is_rec(x) for x in T.walk_deep(F, arm["b"], 2)):
            run.undecided("R1", "call|return-linkage-recorded", "the return address is recorded in a helper of the Call arm; its conditions are not traced", F.loc(arm["b"]))
        else:
            run.check("R1", "call|return-linkage-recorded", len(recs) >= 1 and all(has(cs, is_extern, False) and sum(1 for c, p in cs if c[0] == "let" and c[1].startswith("Some") and p) >= 2 for n, cs in recs),
                      "a return address must be recorded for an internal call iff the call-source node and the return node exist", F.loc(arm["b"]))
        # CallInd: stub iff return target
        is_stub = lambda x: (x.get("k") == "Adt" and x["adt"].endswith("graph::Edge") and x["v"] == "ExternCallStub") or (x.get("k") == "Call" and x.get("f", "").endswith("Edge::ExternCallStub"))
        ok = False
        stub_sites = 0
        for arm in T.arms_for_variant(m, "CallInd"):
            # the arm's own pattern may already require a return target: CallInd { return_: Some(..), .. }
            pat_some = False
            for vp in SL.variant_subpatterns(arm["p"], "jmp::Jmp", "CallInd"):
                sp_ = T.pat_field(vp, "return_")
                if sp_ is not None and T.pat_variant_names(sp_) == {"Some"}:
                    pat_some = True
            for n, conds in T.paths_to(arm["b"], is_stub):
                stub_sites += 1
                good = pat_some
                for cd in conds:
                    c = None
                    if cd[0] == "if" and cd[2] is True:
                        c = sy.ev(cd[1], env)
                    elif cd[0] == "letelse" and cd[2] is True and "i" in cd[1]:
                        c = ("let", T.show_pat(cd[1]["p"]), sy.ev(cd[1]["i"], env))
                    if c is not None and c[0] == "let" and c[1].startswith("Some") and any(isinstance(y, tuple) and y and y[0] == "field" and y[2] == "CallInd.return_" for y in S.subterms(c[2])):
                        good = True
                if good:
                    ok = True
                else:
                    ok = None if ok is not True else ok
                    bad_site = n
        arm = T.arms_for_variant(m, "CallInd")[0]
        if stub_sites == 0 and any(is_stub(x) for a_ in T.arms_for_variant(m, "CallInd") for x in T.walk_deep(F, a_["b"], 2)):
            ok = "helper"
        if ok == "helper":
            run.undecided("R1", "callind|stub-iff-returns", "the stub edge of an indirect call is built in a helper; its conditions are not traced", F.loc(arm["b"]))
        else:
            run.check("R1", "callind|stub-iff-returns", ok is True, "an indirect call gets its stub edge exactly when it has a return target", F.loc(arm["b"]))
        # call-return linkage
        fn = gb_fns.get("add_call_return_node_and_edges")
        if fn is None:
            raise T.AnchorMissing("GraphBuilder::add_call_return_node_and_edges")
        des = [edge_name(n) for n in direct_edges(fn)]
        run.check("R1", "call-return|edge-kinds", sorted(des) == ["CrCallStub", "CrReturnStub", "ReturnCombine"], "every (call, return) pair needs exactly one CrCallStub, one CrReturnStub and one ReturnCombine edge; built: %s" % sorted(des), F.loc(fn["body"]))
        sy2 = S.Sym(F)
        env2 = {}
        sy2.term(fn["body"], env2)
        ends = {}
        for c in T.calls_fn(F, fn, name="add_edge"):
            a = [sy2.ev(x, env2) for x in c["a"]]
            kind = a[3][2] if a[3][0] == "adt" else (a[3][1] if a[3][0] == "call" else "?")
            ends[kind] = (a[1], a[2])
        def is_new_node(t):
            return is_call(t, "add_node")
        good = ("CrCallStub" in ends and "CrReturnStub" in ends and "ReturnCombine" in ends
                and is_new_node(ends["CrCallStub"][1]) and is_new_node(ends["CrReturnStub"][1]) and is_new_node(ends["ReturnCombine"][0])
                and ends["CrReturnStub"][0][0] == "var" and ends["CrReturnStub"][0][1] == "return_source"
                and ends["CrCallStub"][0][0] == "field" and ends["ReturnCombine"][1][0] == "field"
                and ends["CrCallStub"][0][2] != ends["ReturnCombine"][1][2])
        run.check("R1", "call-return|endpoints", bool(good), "linkage must be call-source -> CR node <- callee return site, CR node -> return-to node; found %s" % {k: (fmt(v[0])[:40], fmt(v[1])[:40]) for k, v in ends.items()}, F.loc(fn["body"]))
        # blocks
        fn = gb_fns.get("add_block")
        if fn is None:
            raise T.AnchorMissing("GraphBuilder::add_block")
        nodes = [n["v"] for n in T.walk(fn["body"]) if n.get("k") == "Adt" and n["adt"].endswith("analysis::graph::Node")] + [n["f"].split("::")[-1] for n in T.walk(fn["body"]) if n.get("k") == "Call" and n.get("f", "").startswith("analysis::graph::Node::")]
        des = [edge_name(n) for n in direct_edges(fn)]
        run.check("R1", "block|one-start-one-end-one-edge", sorted(nodes) == ["BlkEnd", "BlkStart"] and des == ["Block"], "add_block must create one BlkStart, one BlkEnd and one Block edge; found nodes %s edges %s" % (nodes, des), F.loc(fn["body"]))
        sy3 = S.Sym(F)
        env3 = {}
        t3 = sy3.term(fn["body"], env3)
        ae = [x for x in S.subterms(t3) if is_call(x, "add_edge")]
        dirok = bool(ae) and is_call(ae[0][2][1], "add_node") and any(y[0] == "call" and y[1] == "BlkStart" or (y[0] == "adt" and y[2] == "BlkStart") for y in S.subterms(ae[0][2][1]) if isinstance(y, tuple) and y) and any((y[0] == "adt" and y[2] == "BlkEnd") or (y[0] == "call" and y[1] == "BlkEnd") for y in S.subterms(ae[0][2][2]) if isinstance(y, tuple) and y)
        run.check("R1", "block|edge-start-to-end", dirok, "the Block edge must lead from the BlkStart to the BlkEnd node", F.loc(fn["body"]))
        ins = [x for x in S.subterms(t3) if is_call(x, "insert") and x[2][0][0] == "field" and x[2][0][2] == "jump_targets"]
        keyok = bool(ins) and ins[0][2][1][0] == "tuple" and "block" in fmt(ins[0][2][1][1][0]) and "sub" in fmt(ins[0][2][1][1][1])
        run.check("R1", "block|registered-per-block-and-sub", keyok, "a new block node pair must be registered under the key (block tid, sub tid)", F.loc(fn["body"]))
        push = [x for x in S.subterms(t3) if is_call(x, "push") and x[2][0][0] == "field" and x[2][0][2] == "block_worklist"]
        run.check("R1", "block|queued-for-outgoing-edges", bool(push) and any((y[0] == "adt" and y[2] == "BlkEnd") or (y[0] == "call" and y[1] == "BlkEnd") for y in S.subterms(push[0][2][1]) if isinstance(y, tuple) and y), "the BlkEnd node of every new block must be queued so that its outgoing edges are built", F.loc(fn["body"]))

    run.guarded("R1", r1)

    def r2():
        # the set that decides "this call gets a stub edge" holds exactly the extern symbols: every insertion into
        # GraphBuilder.extern_subs takes its key from program.extern_symbols
        from .lib import bindsrc as B
        from .lib import iterctx as IC
        ins = []
        for f_ in F.fns:
            if f_.get("dk") == "Closure" or "GraphBuilder" not in (f_.get("impl_self", "") + (f_.get("root") or f_["path"])):
                continue
            for x in T.walk_fn(F, f_):
                if T.is_call(x, ("insert", "extend", "push")) and x.get("a") and T.self_field(x["a"][0]) == "extern_subs":
                    ins.append((f_, x))
        for i_, (f_, x) in enumerate(ins):
            roots = B.bodies(F, f_)
            exprs = list(x["a"][1:]) + IC.contexts(F, f_, x)
            from_extern = any(y.get("k") == "Field" and y.get("fn") == "extern_symbols" for e_ in exprs for src, how in B.sources(F, roots, e_) for y in B.walk_with_closures(F, src))
            from_subs = any(y.get("k") == "Field" and y.get("fn") == "subs" for e_ in exprs for src, how in B.sources(F, roots, e_) for y in B.walk_with_closures(F, src))
            key = "extern_subs|filled-from-extern-symbols|%s#%d" % (f_["name"], i_)
            if from_extern:
                run.holds("R2", key, "", F.loc(x))
            elif from_subs:
                run.violated("R2", key, "an internal function (a key of program.subs) is entered into extern_subs: direct calls to it get an ExternCallStub edge, which is reserved for calls to extern symbols and indirect calls", F.loc(x))
            else:
                run.undecided("R2", key, "origin of the inserted tid not traced", F.loc(x))
        outside = []
        n = 0
        for f in F.fns:
            for c in T.walk(f["body"]):
                if T.is_call(c, ("add_edge", "add_node", "update_edge", "extend_with_edges")) and "petgraph" in c["f"]:
                    ga = " ".join(c.get("ga", []))
                    if "analysis::graph::Node" in ga and "analysis::graph::Edge" in ga:
                        n += 1
                        root = f.get("root") or f["path"]
                        if "GraphBuilder" not in root and "GraphBuilder" not in f.get("impl_self", ""):
                            outside.append("%s (%s)" % (root, F.loc(c)))
        run.floor("CFG construction calls", n, 5)
        # parallel edges are legitimate (a conditional jump and its fall-through may target the same block, an indirect
        # jump may list a target twice): edges must be added with add_edge, never merged with update_edge
        merged = []
        for f in F.fns:
            for c in T.walk(f["body"]):
                if T.is_call(c, ("update_edge",)) and "petgraph" in c["f"]:
                    ga = " ".join(c.get("ga", []))
                    if "analysis::graph::Node" in ga and "analysis::graph::Edge" in ga:
                        merged.append("%s (%s)" % (f.get("root") or f["path"], F.loc(c)))
        run.check("R2", "parallel-edges-kept", not merged, "CFG edges are inserted with update_edge, which overwrites an existing edge between the same two nodes: when two jumps of a block have the same target only one edge survives: %s" % merged[:2])
        run.check("R2", "only-GraphBuilder-builds", not outside, "nodes/edges are added to a control flow graph outside GraphBuilder: %s" % outside[:3])

    run.guarded("R2", r2)

    def r3():
        fn = gb_fns.get("add_outgoing_edges")
        if fn is None:
            raise T.AnchorMissing("GraphBuilder::add_outgoing_edges")
        ms = [n for n in T.walk(fn["body"]) if n.get("k") == "Match"]
        two = None
        for m in ms:
            for arm in m["arms"]:
                q = T.pat_peel(arm["p"])
                if q.get("k") == "Slice" and len(q["pre"]) == 2 and "mid" not in q and not q["suf"]:
                    two = arm
                    ids = [T.pat_bindings(x)[0][0] if T.pat_bindings(x) else None for x in q["pre"]]
        if two is None:
            run.undecided("R3", "two-jump-arm", "no `[if_jump, else_jump]` arm found", F.loc(fn["body"]))
        else:
            cs = T.calls(two["b"], name="add_jump_edge")
            ok = len(cs) == 2
            if ok:
                first, second = cs
                def third(c):
                    a = T.peel(c["a"][3])
                    if a.get("k") == "Adt" and a["v"] == "None":
                        return None
                    if a.get("k") == "Adt" and a["v"] == "Some":
                        return T.var_id(a["fs"]["0"])
                    if a.get("k") == "Call" and a.get("n") == "Some":
                        return T.var_id(a["a"][0])
                    return "?"
                ok = (T.var_id(first["a"][2]) == ids[0] and third(first) is None and T.var_id(second["a"][2]) == ids[1] and third(second) == ids[0])
            run.check("R3", "two-jump-arm|else-edge-marked-with-if-jump", ok, "the first (conditional) jump is added with None, the second (fall-through) jump with Some(first jump)", F.loc(two["b"]))
        # pass-through to Edge::Jump
        for name in ("add_jump_edge", "add_indirect_jumps"):
            f2 = gb_fns[name]
            pid = None
            for p in f2["params"]:
                if "p" in p:
                    for (i, n, _) in T.pat_bindings(p["p"]):
                        if n == "untaken_conditional":
                            pid = i
            jid = None
            for p in f2["params"]:
                if "p" in p:
                    for (i, n, _) in T.pat_bindings(p["p"]):
                        if n == "jump":
                            jid = i
            cs = [c for c in T.calls(f2["body"]) if c["n"] in ("add_intraprocedural_edge", "add_indirect_jumps") and "GraphBuilder" in c["f"]]
            ok = bool(cs) and all(T.var_id(c["a"][-1]) == pid and T.var_id(c["a"][-2]) == jid for c in cs)
            run.check("R3", "%s|passes-marking-on" % name, ok, "%s must pass its `jump` and `untaken_conditional` arguments on unchanged" % name, F.loc(f2["body"]))
        f3 = gb_fns["add_intraprocedural_edge"]
        pid = jid = None
        for p in f3["params"]:
            if "p" in p:
                for (i, n, _) in T.pat_bindings(p["p"]):
                    if n == "untaken_conditional":
                        pid = i
                    if n == "jump":
                        jid = i
        eds = [n for n in direct_edges(f3)]
        def fields(n):
            if n.get("k") == "Adt":
                return [n["fs"].get("0"), n["fs"].get("1")]
            return n["a"][:2]
        ok = bool(eds) and all(edge_name(n) == "Jump" and T.var_id(fields(n)[0]) == jid and T.var_id(fields(n)[1]) == pid for n in eds)
        run.check("R3", "add_intraprocedural_edge|Jump(jump, untaken)", ok, "every Edge::Jump must be built as Jump(jump, untaken_conditional) from the arguments", F.loc(f3["body"]))
        run.floor("Edge::Jump construction sites", len(eds), 1)

    run.guarded("R3", r3)

    def r4():
        fn = gb_fns["add_program_blocks"]
        t = S.Sym(F).term(fn["body"])
        fors = [x for x in S.subterms(t) if isinstance(x, tuple) and x and x[0] == "for"]
        filt = [x for x in S.subterms(t) if is_call(x, ("filter", "take", "skip", "step_by", "take_while", "skip_while", "filter_map"))]
        exits = [n for n in T.walk(fn["body"]) if n.get("k") in ("Break", "Continue", "Return") and n.get("ds") != "ForLoop"]
        ab = [x for x in S.subterms(t) if is_call(x, "add_block")]
        run.check("R4", "add_program_blocks|every-block-of-every-sub", len(fors) == 2 and not filt and not exits and len(ab) == 1 and not any(isinstance(x, tuple) and x and x[0] == "ite" for x in S.subterms(t)),
                  "add_program_blocks must create nodes for every block of every function (two nested loops, no filter, no early exit)", F.loc(fn["body"]))
        fn = gb_fns["add_jump_and_call_edges"]
        t = S.Sym(F).term(fn["body"])
        loops = [x for x in S.subterms(t) if isinstance(x, tuple) and x and x[0] == "loop"]
        ok = bool(loops) and any(is_call(x, "pop") for x in S.subterms(loops[0])) and any(is_call(x, "add_outgoing_edges") for x in S.subterms(loops[0]))
        exits = [n for n in T.walk(fn["body"]) if n.get("k") in ("Continue", "Return")]
        run.check("R4", "add_jump_and_call_edges|whole-worklist", ok and not exits, "outgoing edges must be built for every queued block end until the worklist is empty", F.loc(fn["body"]))
        fn = gb_fns["add_return_edges"]
        t = S.Sym(F).term(fn["body"])
        deep = list(T.walk_deep(F, fn["body"], depth=1))
        all_nodes = any(T.is_call(x, ("node_indices", "node_references", "node_weights", "node_identifiers", "raw_nodes")) for x in deep)
        links = any(T.is_call(x, "add_call_return_node_and_edges") for x in deep)
        shallow = list(T.walk_deep(F, fn["body"], depth=0))
        trunc = sorted({x["n"] for x in shallow if T.is_call(x, ("take", "skip", "step_by", "take_while", "skip_while", "find", "first", "last", "next", "nth", "find_map")) and not x.get("ds") and not (x["n"] == "next" and x.get("x"))})
        other_src = sorted({z["fn"] for x in deep if x.get("k") == "Call" and x.get("n") in ("iter", "values", "iter_mut", "into_iter") and x.get("a") for z in T.walk(x["a"][0]) if z.get("k") == "Field" and z.get("fn") in ("subs", "blocks")})
        key = "add_return_edges|every-return-site"
        if all_nodes and links and not trunc:
            run.holds("R4", key, "", F.loc(fn["body"]))
        elif not links:
            run.violated("R4", key, "add_return_edges never builds the call-return linkage (add_call_return_node_and_edges)", F.loc(fn["body"]))
        elif trunc:
            run.violated("R4", key, "return linkage must be built for every block end that contains a return; the enumeration is truncated (%s)" % trunc, F.loc(fn["body"]))
        elif other_src and not all_nodes:
            run.violated("R4", key, "the return sites are enumerated from the program's %s instead of the nodes of the graph: the (block, other function) copies that exist only as graph nodes get no return linkage" % other_src, F.loc(fn["body"]))
        else:
            run.undecided("R4", key, "enumeration of the return sites not recognised", F.loc(fn["body"]))
        # build order
        fn = gb_fns["build"]
        t = S.Sym(F).term(fn["body"])
        order = []
        for st in stmts_of(t):
            for x in S.subterms(st):
                if is_call(x, ("add_program_blocks", "add_subs_to_call_targets", "add_jump_and_call_edges", "add_return_edges")):
                    order.append(x[1])
        run.check("R4", "build|order", order == ["add_program_blocks", "add_subs_to_call_targets", "add_jump_and_call_edges", "add_return_edges"], "the builder stages must run as blocks, call targets, jump/call edges, return edges (each needs the previous one's tables); found %s" % order, F.loc(fn["body"]))
        # add_block only on lookup miss
        for name in ("add_intraprocedural_edge", "add_jump_edge"):
            f2 = gb_fns[name]
            sy = S.Sym(F)
            env = {}
            sy.term(f2["body"], env)
            for i, (n, conds) in enumerate(T.paths_to(f2["body"], lambda x: T.is_call(x, "add_block"))):
                miss = False
                is_lookup = lambda tt: any(is_call(y, ("get", "contains_key")) and y[2][0][0] == "field" and y[2][0][2] == "jump_targets" for y in S.subterms(tt))
                for cd in conds:
                    if cd[0] == "if":
                        c = sy.ev(cd[1], env)
                        pol = cd[2]
                        while c[0] == "not":
                            c, pol = c[1], not pol
                        if c[0] == "let" and c[1].startswith("Some") and is_lookup(c[2]) and pol is False:
                            miss = True
                        if c[0] == "let" and c[1].startswith("None") and is_lookup(c[2]) and pol is True:
                            miss = True
                        if is_call(c, ("is_none",)) and is_lookup(c) and pol is True:
                            miss = True
                        if is_call(c, ("is_some", "contains_key")) and is_lookup(c) and pol is False:
                            miss = True
                    if cd[0] == "arm":
                        sc = sy.ev(cd[1]["e"], env)
                        names = T.pat_variant_names(cd[2]["p"])
                        if is_lookup(sc) and (names == {"None"} or (T.WILD in names and len(cd[1]["arms"]) == 2)):
                            miss = True
                run.check("R4", "%s|add_block-only-on-miss|%d" % (name, i), miss, "a block node pair may only be created when no pair exists yet for (block, sub): add_block must be in the miss branch of the jump_targets lookup", F.loc(n))

    run.guarded("R4", r4)
