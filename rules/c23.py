"""C23 Results do not depend on hashing or scheduling nondeterminism -- hash-order flow.

Threads: only the log-collector thread exists; its protocol is C25. Hash seeds:
 R2 (armed) the final order: run_with_ghidra sorts all warnings (derived, total Ord) after
    the last module ran and before printing, and prints exactly that vector. Given R2 the
    ORDER in which warnings are produced can never show in the output; only a SELECTION made
    in hash order can.
 R1 (armed) no selection among warnings in hash order: every iteration over a std hash
    container with the default RandomState hasher (type-resolved: FnvHashMap / BTree* are
    out) is classified by its consumer; a violation is a first-match / n-th / truncating
    selection (find, next, last, nth, take, skip, position, early break/return, scalar
    last-writer assignment) over such an iteration whose selected element flows into the
    construction of a warning, or that iterates a container holding warnings
    or a sequence accumulated in hash order (collected vector, string built with +=, pushes)
    that flows - inside the function - into the CONTENT of a single warning (constructor /
    builder argument, field assignment); or a helper that takes its next element in hash order and
    returns the first hit (early `return value` in the loop) whose result a caller puts into a warning
 R3 (notes, never an alarm) every other order-sensitive site (sink is the IR, an analysis
    state, or the unsorted log messages) is listed with its classification
"""
from .lib import sym as S
from .lib import thir as T
from .lib.sym import fmt

ITER = {"iter", "iter_mut", "keys", "values", "values_mut", "into_iter", "into_keys", "into_values", "drain", "retain", "union", "intersection", "difference", "symmetric_difference", "extract_if"}
INSENSITIVE_TERMINALS = {"any", "all", "count", "sum", "product", "min", "max", "min_by", "max_by", "min_by_key", "max_by_key", "contains", "is_empty", "len", "is_subset", "is_superset", "is_disjoint", "eq"}
SENSITIVE_TERMINALS = {"find", "find_map", "next", "last", "nth", "position", "take", "skip", "fold", "reduce", "first", "try_fold", "take_while", "skip_while", "step_by", "zip", "enumerate", "rev"}
ADAPTORS = {"map", "filter", "filter_map", "cloned", "copied", "flat_map", "flatten", "chain", "inspect", "peekable", "by_ref", "map_while"}
WARN_TYPES = ("utils::log::CweWarning", "utils::log::LogMessage")


def is_call(t, name=None):
    return isinstance(t, tuple) and t and t[0] == "call" and (name is None or t[1] == name or (isinstance(name, (set, tuple, frozenset)) and t[1] in name))


def top_level_args(ty):
    i = ty.find("<")
    if i < 0 or not ty.endswith(">"):
        return []
    inner = ty[i + 1:-1]
    args, depth, cur = [], 0, ""
    for ch in inner:
        if ch in "<([":
            depth += 1
        elif ch in ">)]":
            depth -= 1
        if ch == "," and depth == 0:
            args.append(cur.strip())
            cur = ""
        else:
            cur += ch
    if cur.strip():
        args.append(cur.strip())
    return args


def default_hash_container(ty):
    """'map' | 'set' | None for a (reference to a) std HashMap/HashSet with the default hasher"""
    t = ty
    while t.startswith("&"):
        t = t[1:].lstrip()
        if t.startswith("mut "):
            t = t[4:]
        if t.startswith("'"):
            t = t.split(" ", 1)[1] if " " in t else t
    for head, kind, n in (("std::collections::HashMap<", "map", 2), ("std::collections::HashSet<", "set", 1)):
        if t.startswith(head):
            args = top_level_args(t)
            if len(args) == n or (len(args) > n and "RandomState" in args[n]):
                return kind
    return None


def run(run):
    facts = {"cwe_checker_lib": run.facts(), "cwe_checker": run.facts("cwe_checker")}
    run.explanation = (
        "Static hash-order flow analysis: every call that iterates a std HashMap/HashSet with the default (randomly seeded) hasher is "
        "found by the compiler-resolved receiver type in both crates; its consumer (the method chain up to the terminal, or the for-loop "
        "body) is classified as order-insensitive (collected into a map/set, commutative fold, side-effect-free retain, per-key map "
        "updates, a vector that is sorted afterwards) or order-sensitive. Because run_with_ghidra sorts all warnings (total derived order) "
        "before printing - which is checked - the order in which warnings are produced cannot show; an order-sensitive site is an alarm only "
        "when it makes a SELECTION in hash order (first match, n-th, truncation, early exit, last writer) among warnings or among elements "
        "that flow into the construction of a warning; all other order-sensitive sites are listed as notes. Decides hash-order flow into the "
        "warning output; whether hash order changes analysis results through the IR is listed, not decided.")
    run.assumptions = ["CweWarning derives Ord over all fields, so sorting the final vector gives a total deterministic order",
                       "fnv::FnvHashMap and BTreeMap/BTreeSet iterate deterministically"]
    run.rule("R1", "no selection among warnings (or elements flowing into warnings) is made in hash order")
    run.rule("R2", "all warnings are sorted by a derived total order after the last module and before printing; exactly that vector is printed")
    run.rule("R3", "other order-sensitive hash iterations (notes only)")

    sites = []
    for crate, F in facts.items():
        for f in F.fns:
            if "expn" in f and "Derive" in f["expn"]:
                continue
            pm = None
            for c in T.walk(f["body"]):
                if c.get("k") != "Call" or "f" not in c or c["n"] not in ITER or not c["a"]:
                    continue
                rty = F.ty(T.peel(c["a"][0])) if c["n"] != "into_iter" else (c.get("ga") or [F.ty(c["a"][0])])[0]
                kind = default_hash_container(rty) or default_hash_container(F.ty(c["a"][0]))
                if kind is None:
                    # inherent methods: generic args spell the hasher
                    ga = " ".join(c.get("ga", []))
                    if ("collections::hash::map::HashMap" in c["f"] or "collections::HashMap" in c["f"] or "collections::HashSet" in c["f"] or "collections::hash::set::HashSet" in c["f"]) and "RandomState" in ga:
                        kind = "map" if "Map" in c["f"] else "set"
                if kind is None:
                    continue
                if pm is None:
                    pm = {}
                    for n in T.walk(f["body"]):
                        for ch in T.children(n):
                            pm[id(ch)] = n
                sites.append((crate, F, f, c, kind, rty, pm))
    run.floor("default-hasher iteration sites", len(sites), 20)

    def mutates_outer(F, body, bound_ids):
        """calls in a loop body that mutate a variable defined outside the loop through a non-keyed method"""
        out = []
        for x in T.walk(body):
            if x.get("k") == "Call" and "f" in x and x.get("a"):
                a0 = x["a"][0]
                if a0.get("k") == "Borrow" and a0.get("m"):
                    rid = T.root_var_id(a0)
                    if rid is not None and rid not in bound_ids and x["n"] not in ("insert", "entry", "remove", "get_mut", "set_node_value", "extend", "retain", "or_insert", "or_default", "and_modify"):
                        out.append(x["n"])
        return out

    def classify(F, f, c, pm):
        """-> (class, detail) with class in insensitive | sensitive"""
        if c["n"] == "retain":
            cl = T.peel(c["a"][1]) if len(c["a"]) > 1 else {}
            eff = []
            if cl.get("k") == "Closure":
                body = F.closure_by_path(cl["d"])["body"]
                eff = [x["n"] for x in T.walk(body) if T.is_call(x, ("push", "insert", "send", "remove", "extend", "push_str", "append"))]
            return ("insensitive", "retain with a side-effect-free predicate") if not eff else ("sensitive", "retain predicate has effects %s" % eff)
        chain = []
        cur = c
        while True:
            p = pm.get(id(cur))
            # climb through value-preserving wrappers
            while p is not None and p.get("k") in T.WRAPPERS:
                cur = p
                p = pm.get(id(cur))
            if p is None:
                break
            if p.get("k") == "Call" and p.get("a") and any(x is cur for x in T.walk(p["a"][0])) and "f" in p:
                chain.append(p)
                cur = p
                continue
            break
        names = [x["n"] for x in chain]
        # for loop?
        p = pm.get(id(cur))
        fl = None
        q = cur
        for _ in range(4):
            p = pm.get(id(q))
            if p is None:
                break
            if p.get("k") == "Match" and p.get("ms", "").startswith("ForLoopDesugar"):
                fl = T.for_loop(p)
                break
            q = p
        if names and names[-1] == "into_iter" and fl is None:
            names = names[:-1]
        term = None
        for x in chain:
            if x["n"] in INSENSITIVE_TERMINALS | SENSITIVE_TERMINALS | {"collect", "collect_vec", "for_each", "extend", "unzip", "partition"}:
                term = x
                break
        if term is not None:
            n = term["n"]
            if n in INSENSITIVE_TERMINALS:
                return "insensitive", "commutative terminal %s" % n
            if n in SENSITIVE_TERMINALS:
                return "sensitive", "order-dependent terminal %s" % n
            if n in ("collect", "collect_vec", "unzip", "partition"):
                target = (term.get("ga") or ["", ""])[-1] if n == "collect" else "std::vec::Vec"
                tty = F.ty(term)
                if any(k in tty for k in ("BTreeMap", "BTreeSet", "HashMap", "HashSet", "FnvHash")):
                    return "insensitive", "collected into %s" % tty.split("<")[0].split("::")[-1]
                # a Vec: sorted afterwards?
                holder = pm.get(id(term))
                while holder is not None and holder.get("k") in T.WRAPPERS:
                    holder = pm.get(id(holder))
                if holder is not None and holder.get("k") == "LetStmt":
                    ids = [i for i, _, _ in T.pat_bindings(holder["p"])]
                    sorted_later = any(T.is_call(x, ("sort", "sort_unstable", "sort_by", "sort_by_key", "sort_unstable_by", "sort_unstable_by_key")) and T.root_var_id(x["a"][0]) in ids for x in T.walk(f["body"]))
                    only_membership = all((pm.get(id(u)) or {}).get("k") in ("Borrow",) for u in T.walk(f["body"]) if u.get("k") == "Var" and u.get("id") in ids) and False
                    if sorted_later:
                        return "insensitive", "vector sorted afterwards"
                return "sensitive", "collected into the sequence type %s" % tty[:60]
            if n in ("for_each", "extend"):
                return "sensitive", "%s over hash order" % n
        if fl is not None:
            pat, it, body = fl
            effects = []
            for x in T.walk(body):
                if T.is_call(x, ("push", "push_str", "push_back", "send", "append", "write", "print")):
                    effects.append(x["n"])
                if x.get("k") in ("Break", "Return") and x.get("ds") != "ForLoop":
                    effects.append(x["k"].lower())
                if x.get("k") in ("Assign",) and T.peel(x["l"]).get("k") == "Var":
                    effects.append("assign")
                if x.get("k") == "AssignOp" and T.root_var_id(x["l"]) is not None:
                    effects.append("accumulate")
            bound = {i for i, _, _ in T.pat_bindings(pat)} | {n2["id"] for n2 in T.walk(body) if n2.get("k") == "LetStmt" for n2 in [T.pat_peel(n2["p"])] if n2.get("k") == "Bind"}
            mo = mutates_outer(F, body, bound)
            if mo:
                effects.append("mutates outer state via %s" % sorted(set(mo))[:3])
            if not effects:
                return "insensitive", "loop body only updates keyed containers / calls per-element functions"
            return "sensitive", "loop body has order-dependent effects %s" % sorted(set(effects))[:4]
        if chain and all(x["n"] in ADAPTORS | {"into_iter"} for x in chain):
            return "sensitive", "iterator escapes (%s)" % names
        return "sensitive", "unclassified consumer %s" % names

    def emits_warnings(F, f, c, pm):
        """does the iteration's loop body / closures construct or send warnings / log messages?"""
        roots = []
        q = c
        for _ in range(6):
            p = pm.get(id(q))
            if p is None:
                break
            if p.get("k") == "Match" and p.get("ms", "").startswith("ForLoopDesugar"):
                fl = T.for_loop(p)
                if fl:
                    roots.append(fl[2])
                break
            q = p
        # closures passed along the chain
        cur = c
        while True:
            p = pm.get(id(cur))
            while p is not None and p.get("k") in T.WRAPPERS:
                cur = p
                p = pm.get(id(cur))
            if p is None or p.get("k") != "Call":
                break
            for a in p.get("a", [])[1:]:
                a = T.peel(a)
                if a.get("k") == "Closure":
                    try:
                        roots.append(F.closure_by_path(a["d"])["body"])
                    except T.AnchorMissing:
                        pass
            cur = p
        hits = []
        for r in roots:
            for x in T.walk(r):
                if x.get("k") == "Call" and "f" in x:
                    if ("CweWarning" in x["f"] and x["n"] == "new") or x["n"].startswith("generate_cwe_warning") or ("LogMessage" in x["f"] and x["n"].startswith("new")) or (x["n"] == "send" and "crossbeam" in x["f"]):
                        hits.append(x["n"])
        return hits

    def module_result_ordered(F, f):
        """the function (or its module's run function) passes its warnings through an ordered container / sort"""
        mod = f["mod"]
        prefix = mod
        for g in F.fns:
            if g["mod"] == mod or g["mod"].startswith(mod.rsplit("::", 1)[0]):
                for x in T.walk(g["body"]):
                    if T.is_call(x, ("collect",)) and "BTreeMap" in F.ty(x) and any(w in F.ty(x) for w in ("CweWarning", "LogMessage")):
                        return True
                    if T.is_call(x, ("sort", "sort_unstable", "sort_by", "sort_by_key", "dedup")) and any(w in F.ty(T.peel(x["a"][0])) for w in ("CweWarning", "LogMessage")):
                        return True
                    if T.is_call(x, "insert") and "BTreeMap" in x["f"] and any(w in " ".join(x.get("ga", [])) for w in ("CweWarning", "LogMessage")):
                        return True
        return False

    def accumulators(F, f, c, pm):
        """locals that accumulate the elements of the iteration IN ORDER: the let-bound result of an order-preserving collect,
        or outer variables mutated in the loop body by push / push_str / += / non-keyed &mut calls"""
        seeds = set()
        # collected sequence bound by a let
        cur = c
        chain_top = c
        while True:
            p = pm.get(id(cur))
            while p is not None and p.get("k") in T.WRAPPERS:
                cur = p
                p = pm.get(id(cur))
            if p is not None and p.get("k") == "Call" and p.get("a") and any(x is cur for x in T.walk(p["a"][0])):
                cur = p
                chain_top = p
                continue
            break
        holder = pm.get(id(chain_top))
        while holder is not None and holder.get("k") in T.WRAPPERS:
            holder = pm.get(id(holder))
        if holder is not None and holder.get("k") == "LetStmt" and not any(k in F.ty(chain_top) for k in ("BTreeMap", "BTreeSet", "HashMap", "HashSet")):
            seeds |= {i for i, _, _ in T.pat_bindings(holder["p"])}
        # loop body accumulations
        q = c
        for _ in range(6):
            p = pm.get(id(q))
            if p is None:
                break
            if p.get("k") == "Match" and p.get("ms", "").startswith("ForLoopDesugar"):
                fl = T.for_loop(p)
                if fl:
                    pat, it, body = fl
                    bound = {i for i, _, _ in T.pat_bindings(pat)}
                    for x in T.walk(body):
                        if x.get("k") == "LetStmt":
                            bound |= {i for i, _, _ in T.pat_bindings(x["p"])}
                    for x in T.walk(body):
                        if x.get("k") == "AssignOp":
                            r = T.root_var_id(x["l"])
                            if r is not None and r not in bound:
                                seeds.add(r)
                        if x.get("k") == "Call" and "f" in x and x.get("a") and x["n"] in ("push", "push_str", "push_back", "push_front", "extend", "append", "write_str", "write_fmt", "add_assign", "extend_from_slice", "insert_str"):
                            r = T.root_var_id(x["a"][0])
                            if r is not None and r not in bound:
                                seeds.add(r)
                break
            q = p
        return seeds

    def flows_into_a_warning(F, f, seeds):
        """forward taint inside the function: does an order-dependent value become part of the CONTENT of a single warning?
        (collections OF warnings are not sinks: their order is repaired by the final sort)"""
        tainted = set(seeds)
        nodes = list(T.walk_fn(F, f))

        def mentions(n):
            return any(y.get("k") in ("Var", "Upvar") and y.get("id") in tainted for y in T.walk(n))
        for _ in range(6):
            before = len(tainted)
            for n in nodes:
                k = n.get("k")
                if k == "LetStmt" and "i" in n and mentions(n["i"]):
                    tainted |= {i for i, _, _ in T.pat_bindings(n["p"])}
                elif k in ("Assign", "AssignOp") and mentions(n["r"]):
                    r = T.root_var_id(n["l"])
                    if r is not None:
                        tainted.add(r)
                elif k == "Call" and "f" in n and n.get("a"):
                    a0 = n["a"][0]
                    if a0.get("k") == "Borrow" and a0.get("m") and any(mentions(a) for a in n["a"][1:]):
                        r = T.root_var_id(a0)
                        if r is not None:
                            tainted.add(r)
            if len(tainted) == before:
                break
        hits = []
        for n in nodes:
            k = n.get("k")
            if k == "Call" and "f" in n:
                is_builder = ("utils::log::CweWarning" in n["f"] or "utils::log::CweWarning" in n.get("is", "")) and n["n"] in ("new", "tids", "addresses", "symbols", "other")
                if (is_builder or n["n"].startswith("generate_cwe_warning")) and any(mentions(a) for a in n["a"]):
                    hits.append((n, "argument of %s" % n["n"]))
            if k == "Assign" and mentions(n["r"]):
                if any(y.get("k") == "Field" and y.get("adt", "").endswith("utils::log::CweWarning") for y in T.walk(n["l"])):
                    hits.append((n, "assigned to a field of a CweWarning"))
            if k == "Adt" and n["adt"].endswith("utils::log::CweWarning") and any(mentions(e) for e in n["fs"].values()):
                hits.append((n, "field of a constructed CweWarning"))
        return hits

    nsens = 0
    counters = {}
    for crate, F, f, c, kind, rty, pm in sites:
        root = f.get("root") or f["path"]
        idx = counters.get((root, c["n"]), 0)
        counters[(root, c["n"])] = idx + 1
        key = "%s|%s#%d" % (root, c["n"], idx)
        site = F.loc(c)
        cls, detail = classify(F, f, c, pm)
        holds_warn = any(w in rty for w in WARN_TYPES)
        emit = emits_warnings(F, f, c, pm)
        selection = cls == "sensitive" and any(k in detail for k in ("terminal find", "terminal next", "terminal last", "terminal nth", "terminal take", "terminal skip", "terminal position", "terminal first", "terminal find_map", "terminal take_while", "terminal skip_while", "terminal step_by", "'break'", "'return'", "'assign'"))
        if selection and (holds_warn or emit):
            run.violated("R1", key, "a selection is made in hash order (%s) among elements that %s: WHICH warning is reported depends on the per-process hash seed (the final sort cannot repair a selection)" % (
                detail, "are warnings/log messages" if holds_warn else "flow into the construction of warnings (%s)" % sorted(set(emit))), site)
            continue
        if cls == "sensitive":
            hits = flows_into_a_warning(F, f, accumulators(F, f, c, pm))
            if hits:
                run.violated("R1", key, "a sequence built in hash order (%s) becomes part of the content of a warning (%s at %s): the text/fields of that warning differ from run to run, which the final sort of the warning list cannot repair" % (detail, hits[0][1], F.loc(hits[0][0])), site)
                continue
        if cls == "insensitive":
            run.holds("R1", key, detail, site)
        else:
            nsens += 1
            extra = ""
            if emit:
                extra = "; warnings are emitted (%s) in hash order - harmless for the set of warnings as long as a later dedup key is element specific, and their order is fixed by the final sort" % sorted(set(emit))
            run.holds("R1", key, "order-sensitive (%s) but no selection among warnings%s" % (detail, extra), site)
            run.note("R3 order-sensitive hash iteration (not an alarm): %s at %s: %s%s" % (root.split("::")[-1], site, detail, extra))

    # ---- interprocedural step: a helper that returns WHICH element it found first, found in hash order
    odr = {}
    for crate, F, f, c, kind, rty, pm in sites:
        cls, detail = classify(F, f, c, pm)
        if cls != "sensitive" or not any(k in detail for k in ("terminal next", "terminal find", "terminal find_map", "terminal last", "terminal nth", "terminal first", "terminal position")):
            continue
        ret = F.tyi(f["ret"]) if isinstance(f.get("ret"), int) else str(f.get("ret") or "")
        if ret in ("bool", "()", "") or emits_warnings(F, f, c, pm):
            continue
        # the selected element drives a loop with an early `return <value>`: the value returned depends on the visiting order
        early = [x for lp in T.walk(f["body"]) if lp.get("k") == "Loop" for x in T.walk(lp) if x.get("k") == "Return" and x.get("e") is not None and any(y.get("k") in ("Var", "Upvar", "Field", "Call") for y in T.walk(x["e"]))]
        in_loop_header = any(lp.get("k") == "Loop" and any(y is c for y in T.walk(lp)) for lp in T.walk(f["body"]))
        if early and in_loop_header:
            odr[f["path"]] = (F, f, c, detail)
    for path, (F0, f0, c0, detail) in sorted(odr.items()):
        callers = 0
        for crate, F in facts.items():
            for g in F.fns:
                if "expn" in g and "Derive" in g["expn"]:
                    continue
                for x in T.walk_fn(F, g):
                    if not (x.get("k") == "Call" and (x.get("f") == path or x.get("r") == path)):
                        continue
                    callers += 1
                    seeds = set()
                    for n in T.walk_fn(F, g):
                        if n.get("k") == "LetStmt" and "i" in n and any(y is x for y in T.walk(n["i"])):
                            seeds |= {i for i, _, _ in T.pat_bindings(n["p"])}
                        if n.get("k") == "Let" and any(y is x for y in T.walk(n["e"])):
                            seeds |= {i for i, _, _ in T.pat_bindings(n["p"])}
                        if n.get("k") == "Match" and any(y is x for y in T.walk(n["e"])):
                            for a in n["arms"]:
                                seeds |= {i for i, _, _ in T.pat_bindings(a["p"])}
                    hits = flows_into_a_warning(F, g, seeds) if seeds else []
                    key = "%s|result-of|%s" % (g.get("root") or g["path"], f0["name"])
                    if hits:
                        run.violated("R1", key, "%s picks its next element in hash order (%s at %s) and returns the FIRST hit it meets; its result becomes part of a warning here (%s): which call site the warning names depends on the per-process hash seed" % (f0["name"], detail, F0.loc(c0), hits[0][1]), F.loc(x))
                    else:
                        run.holds("R1", key, "result of the order-dependent helper does not reach the content of a warning", F.loc(x))
        if not callers:
            run.note("R3 helper with an order-dependent result and no caller: %s" % path)

    def r2():
        C = facts["cwe_checker"]
        m = C.fn("run_with_ghidra")
        from .lib import sortprint as SP2
        sp_ = SP2.analyse(C, m)
        if sp_["verdict"] == "undecided":
            run.undecided("R2", "final-sort", sp_["why"], C.loc(m["body"]))
        else:
            run.check("R2", "final-sort", sp_["verdict"] == "holds", "the collected warnings must be sorted (total order over all fields) after the last module ran and before printing: %s" % sp_["why"], C.loc(m["body"]))
        F = facts["cwe_checker_lib"]
        # CweWarning derives Ord
        ords = [i for i in F.impls if i.get("trait", "").endswith("cmp::Ord") and i.get("adt", "").endswith("utils::log::CweWarning")]
        if ords and "Derive" in ords[0].get("expn", ""):
            run.holds("R2", "CweWarning-total-order", "derived field-wise Ord")
        elif ords:
            run.undecided("R2", "CweWarning-total-order", "CweWarning has a hand-written Ord: whether it is total over all fields cannot be decided here")
        else:
            run.violated("R2", "CweWarning-total-order", "CweWarning has no Ord implementation: the final sort is gone")
        # dedup containers: every map/set whose value type is a warning/log must be a BTree*
        bad = []
        n = 0
        for f in F.fns:
            for x in T.walk(f["body"]):
                if T.is_call(x, ("insert", "entry")) and x["a"]:
                    ty = F.ty(T.peel(x["a"][0]))
                    if any(w in ty for w in WARN_TYPES) and ("Map<" in ty or "Set<" in ty):
                        n += 1
                        if default_hash_container(ty) is not None or ("HashMap" in ty or "HashSet" in ty):
                            bad.append("%s (%s)" % (f.get("root") or f["path"], F.loc(x)))
        run.floor("warning dedup containers", n, 3)
        if bad:
            run.note("warnings/logs are deduplicated in hash containers at %s: the survivor is decided by insertion order (deterministic), the iteration order by the hash seed (repaired by the final sort for warnings, visible for log messages)" % bad[:3])
        run.check("R2", "printed-vector-is-the-sorted-one", sp_["printed_is_var"] and sp_["verdict"] != "violated", "print_all_messages must receive the sorted vector itself", C.loc(m["body"]))

    run.guarded("R2", r2)
    run.note("R3: %d order-sensitive sites whose sink is the IR or an analysis state are listed above as notes; whether any changes the warnings of some input is not decidable from the shape of the code" % nsens)
