"""C04 Conditional refinement never removes feasible values -- the DataDomain wrapper.

The numeric refinement of intervals (IntervalDomain::add_*_bound, signed_intersect, residue
classes) quantifies over interval members x bounds and is NOT decided. Decided for the wrapper
`impl SpecializeByConditional for DataDomain<T>`:
 R1 delegation by name: each add_*_bound method calls the SAME-named method of T on the
    absolute value (a signed/unsigned or <=/>= mix-up is a one-identifier edit that compiles)
 R2 field effects: the five methods write only `absolute_value`; relative values (pointer
    targets) and the top flag always "satisfy" a bound on the absolute part and must stay
 R3 unsatisfiable only when empty: Err is produced only under self.is_empty() evaluated after
    the update, and the bound passed on is the caller's bound

Two type-resolved flow rules over the integer arithmetic of the interval modules (interval.rs,
interval/simple_interval.rs) -- sign discipline, decided without evaluating any arithmetic:
 R4 sign-safe residues: Rust's `%` on signed integers keeps the sign of the dividend. A signed
    remainder whose dividend may be negative (positive evidence: it derives from a signed
    conversion of a bitvector or a subtraction) may only be (a) normalised by `(r + m) % m` with r
    DIRECTLY a remainder by the same m, (b) compared with 0, or (c) flow through arithmetic into
    (a)/(b). Comparing two raw remainders, or casting one to an unsigned type, mis-computes the
    residue class for negative values -> refinement (intersect) drops feasible values.
 R5 no unsigned-tagged bitvector as signed addend: a Bitvector built by from_u64(..) /
    into_resize_unsigned / into_zero_extend (an unsigned distance) must not be the operand of
    signed_add_overflow_checked / signed_sub_overflow_checked: for distances >= 2^(n-1) the signed
    reading is negative and the rounding goes the wrong way (stride >= 128 for 1-byte values).
 R6 unsigned bounds by sign cases: IntervalDomain::add_unsigned_{less,greater}_equal_bound reduce the unsigned
    comparison to signed refinements by a case analysis on sign bits. Values are touched only through comparisons,
    so the methods are decided over the finite set of sign cases (bound/start/end negative or not, end < bound):
    per case and per sign class of members the composed signed refinements must keep every member that satisfies
    the unsigned comparison.
"""
from .lib import numflow as NF
from .lib import sym as S
from .lib import thir as T
from .lib.sym import fmt

METHODS = ("add_signed_less_equal_bound", "add_unsigned_less_equal_bound", "add_signed_greater_equal_bound", "add_unsigned_greater_equal_bound", "add_not_equal_bound")


def is_call(t, name=None):
    return isinstance(t, tuple) and t and t[0] == "call" and (name is None or t[1] == name or (isinstance(name, (set, tuple, frozenset)) and t[1] in name))


def run(run):
    F = run.facts()
    run.explanation = (
        "Static delegation / field-effect analysis of `impl SpecializeByConditional for DataDomain<T>`: for each of the five bound "
        "methods the callee invoked on the absolute value (resolved by the compiler, inside the and_then closure) must be the method of "
        "the same name with the caller's bound; the set of self fields written is computed from assignments and mutable borrows; the "
        "Err result must sit under `self.is_empty()` evaluated after the update. Decides the wrapper only; the numeric refinement of "
        "intervals is not decided by static analysis.")
    run.rule("R1", "each DataDomain::add_*_bound delegates to the same-named method of the value domain with the same bound")
    run.rule("R2", "the bound methods write only absolute_value")
    run.rule("R3", "Err only when the refined value is empty (tested after the update)")

    fns = {m: F.fn(m, adt="DataDomain", trait="SpecializeByConditional") for m in METHODS}

    def r1():
        for m, fn in fns.items():
            site = F.loc(fn["body"])
            called = []
            for x in T.walk_fn(F, fn):
                if T.is_call(x) and x["n"] in METHODS and x.get("tr", "").endswith("SpecializeByConditional"):
                    called.append(x)
            run.check("R1", "%s|same-name" % m, len(called) >= 1 and all(c["n"] == m for c in called), "DataDomain::%s refines the absolute value with %s: the wrong comparison is applied" % (m, [c["n"] for c in called]), site)
            if called:
                c = called[0]
                b = T.peel(c["a"][1]) if len(c["a"]) > 1 else {}
                run.check("R1", "%s|same-bound" % m, b.get("k") in ("Var", "Upvar") and b.get("n") == "bound", "the bound passed on must be the caller's bound; found %s" % T.show(c["a"][1]) if len(c["a"]) > 1 else "", site)
                recv = T.peel(c["a"][0])
                # receiver: the value bound by the closure parameter fed from self.absolute_value
                t = S.Sym(F).term(fn["body"])
                src = [x for x in S.subterms(t) if is_call(x, ("and_then", "map", "take")) and x[2] and fmt(x[2][0]).endswith("self.absolute_value")]
                (run.holds if src else run.undecided)("R1", "%s|on-absolute-value" % m, "the refinement must be applied to self.absolute_value (shape not recognised)", site)

    run.guarded("R1", r1)

    def r2():
        for m, fn in fns.items():
            written = set()
            for x in T.walk_fn(F, fn):
                if x.get("k") in ("Assign", "AssignOp"):
                    f = T.self_field(x["l"])
                    if f:
                        written.add(f)
                if x.get("k") == "Call" and x.get("a") and x["a"][0].get("k") == "Borrow" and x["a"][0].get("m"):
                    f = T.self_field(x["a"][0])
                    if f:
                        written.add(f)
                    elif T.is_self(x["a"][0]) and x.get("n") not in ("is_empty",):
                        written.add("<self via %s>" % x.get("n"))
            run.check("R2", "%s|writes-only-absolute_value" % m, written == {"absolute_value"}, "DataDomain::%s writes %s: pointer targets / the Top flag trivially satisfy a bound on the absolute part and must not be touched" % (m, sorted(written)), F.loc(fn["body"]))

    run.guarded("R2", r2)

    def conds_to(t, pred):
        """(term, conds) for every subterm satisfying pred; conds = [(cond_term, bool|None)]; closures are opaque."""
        out = []

        def rec(x, conds):
            if isinstance(x, list) or (isinstance(x, tuple) and (not x or not isinstance(x[0], str))):
                for y in x:
                    rec(y, conds)
                return
            if not isinstance(x, tuple):
                return
            if pred(x):
                out.append((x, list(conds)))
            if x[0] == "ite":
                rec(x[1], conds)
                rec(x[2], conds + [(x[1], True)])
                rec(x[3], conds + [(x[1], False)])
                return
            if x[0] == "match":
                rec(x[1], conds)
                for arm in x[2]:
                    rec(arm[2], conds + [(("matcharm", x[1], arm[0]), None)])
                return
            if x[0] in ("and", "or"):
                rec(x[1], conds)
                rec(x[2], conds + [(x[1], x[0] == "and")])
                return
            for y in x[1:]:
                rec(y, conds)

        rec(t, [])
        return out

    def literals(c, val, defs):
        """Set of (atom, polarity) implied by `c == val`, or None if c is not a conjunction of literals."""
        if val is None or not isinstance(c, tuple):
            return None
        if c[0] == "not":
            return literals(c[1], not val, defs)
        if (c[0] == "and" and val) or (c[0] == "or" and not val):
            a, b = literals(c[1], val, defs), literals(c[2], val, defs)
            return None if a is None or b is None else a | b
        if c[0] in ("and", "or"):
            return None
        if is_call(c, "is_empty") and c[3].endswith("DataDomain::<T>::is_empty") and fmt(c[2][0]) in ("self", "&self"):
            return set(defs) if val else None
        if is_call(c, "is_some") and val is not None:
            return {("is_none(%s)" % fmt(c[2][0]), not val)}
        return {(fmt(c), val)}

    def r3():
        ie = F.fn("is_empty", adt="DataDomain", file="abstract_domain/data.rs")
        EMPTY = literals(S.value(S.Sym(F).term(ie["body"])), True, ())
        dd = F.adt("abstract_domain::data::DataDomain")
        fields = [f["name"] for f in dd["variants"][0]["fields"] if f["name"] != "size"]
        tested = {a for a, _ in (EMPTY or ())}
        miss = [f for f in fields if not any("self.%s" % f in a for a in tested)]
        run.check("R3", "is_empty|tests-every-value-field", EMPTY is not None and not miss, "DataDomain::is_empty must test every value-carrying field of DataDomain (%s); untested: %s" % (fields, miss), F.loc(ie["body"]))
        if EMPTY is None:
            return
        for m, fn in fns.items():
            t = S.Sym(F).term(fn["body"])
            site = F.loc(fn["body"])
            st = (list(t[1]) + [t[2]]) if t[0] == "seq" else [t]
            iasg = [i for i, s in enumerate(st) if isinstance(s, tuple) and s[0] == "assign" and fmt(s[1]) == "self.absolute_value"]
            errs = conds_to(t, lambda x: (x[0] == "adt" and x[1].endswith("result::Result") and x[2] == "Err") or x[0] == "try")
            key = "%s|err-only-when-empty-after-update" % m
            verdict, why = "holds", ""
            if not iasg:
                verdict, why = "undecided", "no assignment to self.absolute_value found"
            for e, conds in errs:
                if e[0] == "try":
                    if any(is_call(x, METHODS) for x in S.subterms(e)):
                        verdict, why = "violated", "`?` on the value domain's refinement: an unsatisfiable bound on the absolute part alone makes the whole value 'unsatisfiable' although relative values may satisfy it"
                        break
                    verdict, why = "undecided", "early return through `?` on %s" % fmt(e)[:80]
                    continue
                if not conds:
                    verdict, why = "violated", "Err is returned unconditionally"
                    break
                lits, opaque = set(), False
                for c, v in conds:
                    l = literals(c, v, EMPTY)
                    if l is None:
                        opaque = True
                    else:
                        lits |= l
                if EMPTY <= lits:
                    # the test must be evaluated after the update
                    idx = [i for i, s in enumerate(st) if any(x is e for x in S.subterms(s))]
                    if iasg and idx and idx[0] <= iasg[0]:
                        verdict, why = "violated", "emptiness is tested before the absolute value is refined"
                        break
                    continue
                atoms = {a for a, _ in EMPTY}
                if not opaque and all(a in atoms for a, _ in lits):
                    verdict, why = "violated", "Err under %s, which does not imply emptiness of the whole value (%s)" % (sorted(lits), sorted(EMPTY))
                    break
                verdict, why = "undecided", "Err under unrecognised condition %s" % [fmt(c)[:60] for c, _ in conds]
            detail = "DataDomain::%s may report 'unsatisfiable' only when the whole value is empty AFTER the absolute part was refined: %s" % (m, why)
            getattr(run, verdict)("R3", key, detail, site)

    run.guarded("R3", r3)

    # ---------------------------------------------------------------- R4 / R5
    run.rule("R4", "signed remainders of possibly negative values are normalised before being compared or cast to unsigned")
    run.rule("R5", "unsigned-tagged bitvectors are not used as signed addends")
    FILES = ("abstract_domain/interval.rs", "abstract_domain/interval/simple_interval.rs", "abstract_domain/interval/bin_ops.rs")
    fns = [f for f in F.raw["fns"] if f.get("dk") in ("Fn", "AssocFn") and any(F.file_of(f).endswith(x) for x in FILES) and not f.get("expn")]

    def r4():
        nrem = 0
        seen = set()
        for fn in fns:
            flow = None
            for n in T.walk_fn(F, fn):
                if n.get("k") != "Binary" or n.get("o") != "Rem" or F.ty(n) not in NF.SIGNED:
                    continue
                if flow is None:
                    flow = NF.Flow(F, fn)
                nrem += 1
                if NF.is_normaliser(flow, n):
                    continue
                dsign = flow.sign(n["l"])
                verdicts = classify(flow, n, 0)
                bad = [v for v in verdicts if v[0] == "bad"]
                unk = [v for v in verdicts if v[0] == "unknown"]
                if bad and dsign == "mayneg":
                    for b in bad:
                        key = "%s|%s|%s" % (fn["name"], b[1], T.show(b[2])[:70])
                        if key in seen:
                            continue
                        seen.add(key)
                        run.violated("R4", key, "signed remainder `%s` (its dividend may be negative: it derives from a signed bitvector conversion or a subtraction) is %s in `%s` without the `(r + m) %% m` normalisation: negative values land in the wrong residue class, so the refinement keeps/drops the wrong members" % (T.show(n)[:80], b[1], T.show(b[2])[:100]), F.loc(b[2]))
                elif (bad and dsign == "unknown") or (unk and dsign == "mayneg"):
                    w = (bad or unk)[0]
                    key = "%s|%s|%s" % (fn["name"], w[1], T.show(n)[:50])
                    if key not in seen:
                        seen.add(key)
                        run.undecided("R4", key, "signed remainder `%s` (dividend sign: %s) is %s at %s" % (T.show(n)[:80], dsign, w[1], F.loc(w[2]) if w[2] else "?"), F.loc(n))
                else:
                    run.holds("R4", "%s|%s" % (fn["name"], T.show(n)[:60]), "", F.loc(n))
        run.floor("R4 signed remainders", nrem, 10)

    def classify(flow, n, depth):
        """verdicts for the value of node n (a raw signed remainder or arithmetic on one)."""
        if depth > 12:
            return [("unknown", "deep-flow", n)]
        out = []
        for cons, me in flow.consumers(n):
            if cons is None:
                out.append(("unknown", "returned/escapes", n))
                continue
            k = cons.get("k")
            if k == "Binary":
                o = cons["o"]
                other = cons["r"] if cons["l"] is me or T.peel(cons["l"]) is T.peel(me) else cons["l"]
                if o in ("Eq", "Ne"):
                    od = flow.definition(other)
                    if od.get("k") == "Lit" and str(od.get("v")).split("_")[0].rstrip("iu") == "0":
                        out.append(("ok", "compared-with-0", cons))
                    else:
                        out.append(("bad", "compared-raw", cons))
                elif o in ("Lt", "Le", "Gt", "Ge"):
                    out.append(("bad", "ordered-raw", cons))
                elif o == "Rem":
                    if NF.is_normaliser(flow, cons):
                        out.append(("ok", "normalised", cons))
                    elif cons["r"] is me:
                        out.append(("unknown", "used-as-modulus", cons))
                    else:
                        # dividend of an outer remainder: the outer one is judged on its own
                        out.append(("ok", "absorbed-by-outer-remainder", cons))
                elif o == "Add":
                    pp = flow.parent.get(id(cons))
                    while pp is not None and pp.get("k") in T.WRAPPERS:
                        pp = flow.parent.get(id(pp))
                    if pp is not None and pp.get("k") == "Binary" and pp.get("o") == "Rem" and NF.is_normaliser(flow, pp):
                        out.append(("ok", "normalised", pp))
                    else:
                        out.extend(classify(flow, cons, depth + 1))
                elif o in ("Sub", "Mul", "Div"):
                    out.extend(classify(flow, cons, depth + 1))
                else:
                    out.append(("unknown", "operator-" + o, cons))
            elif k == "Cast":
                if F.ty(cons) in NF.UNSIGNED:
                    out.append(("bad", "cast-to-unsigned", cons))
                else:
                    out.extend(classify(flow, cons, depth + 1))
            elif k in ("AssignOp", "Assign"):
                out.append(("unknown", "stored-in-mutable", cons))
            elif k == "LetStmt":
                out.append(("unknown", me if isinstance(me, str) else "bound", cons))
            else:
                out.append(("unknown", "used-by-" + str(k), cons))
        return out

    run.guarded("R4", r4)

    def r5():
        UNSIGNED_MAKERS = ("into_resize_unsigned", "into_zero_extend", "into_zero_resize", "from_u64", "from_u32", "from_u8", "from_u16")
        SIGNED_OPS = ("signed_add_overflow_checked", "signed_sub_overflow_checked")
        nsites = 0
        for fn in fns:
            flow = None
            for n in T.walk_fn(F, fn):
                if not (T.is_call(n) and n.get("n") in SIGNED_OPS and len(n.get("a", [])) == 2):
                    continue
                if flow is None:
                    flow = NF.Flow(F, fn)
                nsites += 1
                arg = flow.definition(n["a"][1])
                while T.is_call(arg) and arg.get("n") in ("unwrap", "clone") and arg.get("a"):
                    arg = flow.definition(arg["a"][0])
                key = "%s|%s|operand" % (fn["name"], n["n"])
                if T.is_call(arg) and arg.get("n") in UNSIGNED_MAKERS:
                    run.violated("R5", key, "`%s` gets the unsigned quantity `%s` as its signed operand: for distances >= 2^(n-1) the signed reading is negative (e.g. 1-byte values with stride >= 128), so rounding a bound to the stride goes the wrong way and the refinement reports Empty or a wrong bound" % (n["n"], T.show(arg)[:90]), F.loc(n))
                else:
                    run.holds("R5", key + "|" + T.show(n["a"][1])[:40], "", F.loc(n))
        run.floor("R5 signed overflow-checked sites", nsites, 8)

    run.guarded("R5", r5)


# ---------------------------------------------------------------------------- R6: unsigned bounds by sign cases
def _r6(run, F):
    """add_unsigned_{less,greater}_equal_bound reduce an unsigned comparison to signed refinements by a case analysis
    on the sign bits of bound / start / end. Values are touched only through comparisons, so the method is decided
    over the finite set of sign cases: per case and per sign class of interval members (negative / non-negative) the
    composed signed refinements must keep every member that satisfies the unsigned comparison."""
    run.rule("R6", "unsigned bounds: in every sign case the signed refinements keep all members satisfying the unsigned comparison")
    ALL, NONE, PART = "all", "none", "part"

    def arg_class(a):
        a = S.value(a)
        if a[0] == "var" and a[1] == "bound":
            return "bound"
        if is_call(a, "zero"):
            return "zero"
        if (a[0] == "neg" and is_call(S.value(a[1]), "one")) or (is_call(a, "neg") and a[2] and is_call(S.value(a[2][0]), "one")):
            return "minus1"
        return None

    def atom(c):
        c = S.value(c)
        while is_call(c, ("unwrap", "to_bool")) and c[2]:
            c = S.value(c[2][0])
        if is_call(c, "sign_bit") and c[2]:
            x = fmt(c[2][0])
            return {"bound": "Bn", "self.interval.start": "Sn", "self.interval.end": "En"}.get(x)
        if is_call(c, "checked_slt") and len(c[2]) == 2 and fmt(c[2][0]) == "self.interval.end" and fmt(c[2][1]) == "bound":
            return "Elt"
        if is_call(c, "checked_sgt") and len(c[2]) == 2 and fmt(c[2][0]) == "bound" and fmt(c[2][1]) == "self.interval.end":
            return "Elt"
        return None

    def ev_bool(c, asg):
        c = S.value(c)
        if c[0] == "not":
            v = ev_bool(c[1], asg)
            return None if v is None else (not v)
        if c[0] in ("and", "or"):
            a, b = ev_bool(c[1], asg), ev_bool(c[2], asg)
            if a is None or b is None:
                return None
            return (a and b) if c[0] == "and" else (a or b)
        a = atom(c)
        return asg.get(a) if a else None

    def ev(t, asg, acc):
        """-> list of constraints (kind, argclass) or None when outside the vocabulary"""
        t0 = t
        if t[0] == "seq":
            for st in t[1]:
                if st[0] == "assign" and fmt(st[1]) == "self":
                    r = ev(st[2], asg, acc)
                    if r is None:
                        return None
                elif st[0] in ("letstmt",):
                    return None
                else:
                    return None
            return ev(t[2], asg, acc)
        if t[0] == "try":
            return ev(t[1], asg, acc)
        if t[0] == "ite":
            if acc:
                return None      # a decision after the interval was already refined
            v = ev_bool(t[1], asg)
            if v is None:
                return None
            return ev(t[2] if v else t[3], asg, acc)
        if is_call(t, ("add_signed_less_equal_bound", "add_signed_greater_equal_bound")) and len(t[2]) == 2 and fmt(t[2][0]) == "self":
            ac = arg_class(t[2][1])
            if ac is None:
                return None
            acc.append(("le" if "less" in t[1] else "ge", ac))
            return acc
        if t[0] == "adt" and t[2] == "Ok" and fmt(dict(t[3])["0"]) == "self":
            return acc
        return None

    def effect(con, cls, Bn):
        kind, ac = con
        if ac == "bound":
            if kind == "le":
                return ("cmp_le" if Bn else ALL) if cls == "neg" else (NONE if Bn else "cmp_le")
            return ("cmp_ge" if Bn else NONE) if cls == "neg" else (ALL if Bn else "cmp_ge")
        if ac == "zero":
            if kind == "ge":
                return NONE if cls == "neg" else ALL
            return ALL if cls == "neg" else PART
        if ac == "minus1":
            if kind == "le":
                return ALL if cls == "neg" else NONE
            return PART if cls == "neg" else ALL
        return PART

    def compose(effs):
        cur = ALL
        for e in effs:
            if cur == NONE or e == NONE:
                cur = NONE
            elif e == ALL:
                pass
            elif cur == ALL:
                cur = e
            elif cur == e:
                pass
            else:
                cur = PART
        return cur

    def required(which, cls, asg):
        Bn = asg["Bn"]
        if which == "le":      # x <=u bound
            if cls == "neg":
                return "cmp_le" if Bn else NONE
            return ALL if Bn else "cmp_le"
        if cls == "neg":       # x >=u bound
            return "cmp_ge" if Bn else ALL
        if Bn:
            return NONE
        return NONE if asg.get("Elt") else "cmp_ge"

    for name, which in (("add_unsigned_less_equal_bound", "le"), ("add_unsigned_greater_equal_bound", "ge")):
        fn = F.fn(name, adt="IntervalDomain", trait="SpecializeByConditional")
        t = S.Sym(F).term(fn["body"])
        site = F.loc(fn["body"])
        bad, und, ncases = [], [], 0
        for Bn in (False, True):
            for Sn in (False, True):
                for En in (False, True):
                    if En and not Sn:
                        continue
                    elts = [True] if (En and not Bn) else [False] if (Bn and not En) else [False, True]
                    for Elt in elts:
                        asg = {"Bn": Bn, "Sn": Sn, "En": En, "Elt": Elt}
                        ncases += 1
                        cons = ev(t, asg, [])
                        desc = "bound %s, start %s, end %s%s" % ("<0" if Bn else ">=0", "<0" if Sn else ">=0", "<0" if En else ">=0", ", end < bound" if Elt else "")
                        if cons is None:
                            und.append(desc)
                            continue
                        for cls, present in (("neg", Sn), ("nonneg", not En)):
                            if not present:
                                continue
                            kept = compose([effect(c, cls, Bn) for c in cons])
                            req = required(which, cls, asg)
                            ok = req == NONE or kept == ALL or kept == req
                            if not ok and kept == PART:
                                und.append(desc + " (%s members: partial refinement)" % cls)
                            elif not ok:
                                bad.append("%s: the %s members of the interval that satisfy x %s bound (%s) are %s by %s" % (desc, "negative" if cls == "neg" else "non-negative", "<=u" if which == "le" else ">=u", "all of them" if req == ALL else "those with x %s bound" % ("<=s" if req == "cmp_le" else ">=s"), "all removed" if kept == NONE else "cut by the wrong comparison", cons))
        key = "%s|sign-cases" % name
        if bad:
            run.violated("R6", key, "; ".join(bad[:2]) + (" (+%d more cases)" % (len(bad) - 2) if len(bad) > 2 else ""), site)
        elif und:
            run.undecided("R6", key, "%d of %d sign cases outside the vocabulary, e.g. %s" % (len(und), ncases, und[0]), site)
        else:
            run.holds("R6", key, "%d sign cases" % ncases, site)


_run_r1_r5 = run


def run(run):  # noqa: F811
    _run_r1_r5(run)
    F = run.facts()
    run.guarded("R6", lambda: _r6(run, F))
