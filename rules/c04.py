"""C04 Conditional refinement never removes feasible values -- the DataDomain wrapper.

The numeric refinement of intervals (IntervalDomain::add_*_bound, signed_intersect, residue
classes) quantifies over interval members x bounds and is NOT decided. Decided for the wrapper
`impl SpecializeByConditional for DataDomain<T>`:
 R1 delegation by name: each add_*_bound method calls the SAME-named method of T on the
    absolute value (a signed/unsigned or <=/>= mix-up is a one-identifier edit that compiles)
 R2 field effects: the five methods write only `absolute_value`; relative values (pointer
    targets) and the top flag always "satisfy" a bound on the absolute part and must stay
 R3 unsatisfiable only when empty: Err is produced only under self.is_empty() evaluated after
    the update, and the bound passed on is the caller's bound
"""
from .lib import sym as S
from .lib import thir as T
from .lib.sym import fmt

METHODS = ("add_signed_less_equal_bound", "add_unsigned_less_equal_bound", "add_signed_greater_equal_bound", "add_unsigned_greater_equal_bound", "add_not_equal_bound")


def is_call(t, name=None):
    return isinstance(t, tuple) and t and t[0] == "call" and (name is None or t[1] == name or (isinstance(name, (set, tuple, frozenset)) and t[1] in name))


def run(run):
    F = run.facts()
    run.explanation = (
        "Static delegation / field-effect analysis of `impl SpecializeByConditional for DataDomain<T>`: for each of the five bound "
        "methods the callee invoked on the absolute value (resolved by the compiler, inside the and_then closure) must be the method of "
        "the same name with the caller's bound; the set of self fields written is computed from assignments and mutable borrows; the "
        "Err result must sit under `self.is_empty()` evaluated after the update. Decides the wrapper only; the numeric refinement of "
        "intervals is not decided by static analysis.")
    run.rule("R1", "each DataDomain::add_*_bound delegates to the same-named method of the value domain with the same bound")
    run.rule("R2", "the bound methods write only absolute_value")
    run.rule("R3", "Err only when the refined value is empty (tested after the update)")

    fns = {m: F.fn(m, adt="DataDomain", trait="SpecializeByConditional") for m in METHODS}

    def r1():
        for m, fn in fns.items():
            site = F.loc(fn["body"])
            called = []
            for x in T.walk_fn(F, fn):
                if T.is_call(x) and x["n"] in METHODS and x.get("tr", "").endswith("SpecializeByConditional"):
                    called.append(x)
            run.check("R1", "%s|same-name" % m, len(called) >= 1 and all(c["n"] == m for c in called), "DataDomain::%s refines the absolute value with %s: the wrong comparison is applied" % (m, [c["n"] for c in called]), site)
            if called:
                c = called[0]
                b = T.peel(c["a"][1]) if len(c["a"]) > 1 else {}
                run.check("R1", "%s|same-bound" % m, b.get("k") in ("Var", "Upvar") and b.get("n") == "bound", "the bound passed on must be the caller's bound; found %s" % T.show(c["a"][1]) if len(c["a"]) > 1 else "", site)
                recv = T.peel(c["a"][0])
                # receiver: the value bound by the closure parameter fed from self.absolute_value
                t = S.Sym(F).term(fn["body"])
                src = [x for x in S.subterms(t) if is_call(x, ("and_then", "map", "take")) and x[2] and fmt(x[2][0]).endswith("self.absolute_value")]
                (run.holds if src else run.undecided)("R1", "%s|on-absolute-value" % m, "the refinement must be applied to self.absolute_value (shape not recognised)", site)

    run.guarded("R1", r1)

    def r2():
        for m, fn in fns.items():
            written = set()
            for x in T.walk_fn(F, fn):
                if x.get("k") in ("Assign", "AssignOp"):
                    f = T.self_field(x["l"])
                    if f:
                        written.add(f)
                if x.get("k") == "Call" and x.get("a") and x["a"][0].get("k") == "Borrow" and x["a"][0].get("m"):
                    f = T.self_field(x["a"][0])
                    if f:
                        written.add(f)
                    elif T.is_self(x["a"][0]) and x.get("n") not in ("is_empty",):
                        written.add("<self via %s>" % x.get("n"))
            run.check("R2", "%s|writes-only-absolute_value" % m, written == {"absolute_value"}, "DataDomain::%s writes %s: pointer targets / the Top flag trivially satisfy a bound on the absolute part and must not be touched" % (m, sorted(written)), F.loc(fn["body"]))

    run.guarded("R2", r2)

    def conds_to(t, pred):
        """(term, conds) for every subterm satisfying pred; conds = [(cond_term, bool|None)]; closures are opaque."""
        out = []

        def rec(x, conds):
            if isinstance(x, list) or (isinstance(x, tuple) and (not x or not isinstance(x[0], str))):
                for y in x:
                    rec(y, conds)
                return
            if not isinstance(x, tuple):
                return
            if pred(x):
                out.append((x, list(conds)))
            if x[0] == "ite":
                rec(x[1], conds)
                rec(x[2], conds + [(x[1], True)])
                rec(x[3], conds + [(x[1], False)])
                return
            if x[0] == "match":
                rec(x[1], conds)
                for arm in x[2]:
                    rec(arm[2], conds + [(("matcharm", x[1], arm[0]), None)])
                return
            if x[0] in ("and", "or"):
                rec(x[1], conds)
                rec(x[2], conds + [(x[1], x[0] == "and")])
                return
            for y in x[1:]:
                rec(y, conds)

        rec(t, [])
        return out

    def literals(c, val, defs):
        """Set of (atom, polarity) implied by `c == val`, or None if c is not a conjunction of literals."""
        if val is None or not isinstance(c, tuple):
            return None
        if c[0] == "not":
            return literals(c[1], not val, defs)
        if (c[0] == "and" and val) or (c[0] == "or" and not val):
            a, b = literals(c[1], val, defs), literals(c[2], val, defs)
            return None if a is None or b is None else a | b
        if c[0] in ("and", "or"):
            return None
        if is_call(c, "is_empty") and c[3].endswith("DataDomain::<T>::is_empty") and fmt(c[2][0]) in ("self", "&self"):
            return set(defs) if val else None
        if is_call(c, "is_some") and val is not None:
            return {("is_none(%s)" % fmt(c[2][0]), not val)}
        return {(fmt(c), val)}

    def r3():
        ie = F.fn("is_empty", adt="DataDomain", file="abstract_domain/data.rs")
        EMPTY = literals(S.value(S.Sym(F).term(ie["body"])), True, ())
        dd = F.adt("abstract_domain::data::DataDomain")
        fields = [f["name"] for f in dd["variants"][0]["fields"] if f["name"] != "size"]
        tested = {a for a, _ in (EMPTY or ())}
        miss = [f for f in fields if not any("self.%s" % f in a for a in tested)]
        run.check("R3", "is_empty|tests-every-value-field", EMPTY is not None and not miss, "DataDomain::is_empty must test every value-carrying field of DataDomain (%s); untested: %s" % (fields, miss), F.loc(ie["body"]))
        if EMPTY is None:
            return
        for m, fn in fns.items():
            t = S.Sym(F).term(fn["body"])
            site = F.loc(fn["body"])
            st = (list(t[1]) + [t[2]]) if t[0] == "seq" else [t]
            iasg = [i for i, s in enumerate(st) if isinstance(s, tuple) and s[0] == "assign" and fmt(s[1]) == "self.absolute_value"]
            errs = conds_to(t, lambda x: (x[0] == "adt" and x[1].endswith("result::Result") and x[2] == "Err") or x[0] == "try")
            key = "%s|err-only-when-empty-after-update" % m
            verdict, why = "holds", ""
            if not iasg:
                verdict, why = "undecided", "no assignment to self.absolute_value found"
            for e, conds in errs:
                if e[0] == "try":
                    if any(is_call(x, METHODS) for x in S.subterms(e)):
                        verdict, why = "violated", "`?` on the value domain's refinement: an unsatisfiable bound on the absolute part alone makes the whole value 'unsatisfiable' although relative values may satisfy it"
                        break
                    verdict, why = "undecided", "early return through `?` on %s" % fmt(e)[:80]
                    continue
                if not conds:
                    verdict, why = "violated", "Err is returned unconditionally"
                    break
                lits, opaque = set(), False
                for c, v in conds:
                    l = literals(c, v, EMPTY)
                    if l is None:
                        opaque = True
                    else:
                        lits |= l
                if EMPTY <= lits:
                    # the test must be evaluated after the update
                    idx = [i for i, s in enumerate(st) if any(x is e for x in S.subterms(s))]
                    if iasg and idx and idx[0] <= iasg[0]:
                        verdict, why = "violated", "emptiness is tested before the absolute value is refined"
                        break
                    continue
                atoms = {a for a, _ in EMPTY}
                if not opaque and all(a in atoms for a, _ in lits):
                    verdict, why = "violated", "Err under %s, which does not imply emptiness of the whole value (%s)" % (sorted(lits), sorted(EMPTY))
                    break
                verdict, why = "undecided", "Err under unrecognised condition %s" % [fmt(c)[:60] for c, _ in conds]
            detail = "DataDomain::%s may report 'unsatisfiable' only when the whole value is empty AFTER the absolute part was refined: %s" % (m, why)
            getattr(run, verdict)("R3", key, detail, site)

    run.guarded("R3", r3)
